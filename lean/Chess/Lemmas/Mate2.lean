import Chess.Lemmas.Mate2Aux10

/-!
# Mate in two (C10, second half)

"If the side to move can force mate in two, a search to depth 5 or more plays a move that keeps the
forced mate; the search stops by itself once such a mate is seen" — from a FRESH table, with the
table ON (or off: both are covered), flag always up.

Files: `Mate2Aux1` (definitions, game-theoretic facts), `Mate2Aux2` (value contract, table
invariant, the abstraction `Sem` of "won"/"lost"), `Mate2Aux3` (move loop of an interior node),
`Mate2Aux4` (`node_ok`), `Mate2Aux5` (`rootLoop_ok`, `rootSearch_ok`), `Mate2Aux6` (driver, table
on: the theorems below), `Mate2Aux7`–`Mate2Aux10` (table off: loop with re-search, `node_off`,
`rootLoop_off`, `rootSearch_off`, `mate_in_two_found_off`), this file (overview, example games,
counterexamples, axioms).

## The full statement with the table OFF (module `Mate2Aux10`)

* `mate_in_two_found_off`: for EVERY game (no hypothesis on the hash, on the number of moves, on
  transpositions; null-window re-search included), with `Bounded o`, fresh table, flag up, the C09
  hook ON (`ttOff = true`: the table is emptied at every poll), no limit or a limit `≥ 5`: if some
  move kept by the repetition filter keeps the mate (`KeepsMate`: it mates at once, or every reply
  allows a mate in one), the driver answers a move `m` with `KeepsMate o g m` (STRONG reading),
  `stopped = false`, no report deeper than 5. With the table off only the returned values matter,
  and for them soundness and completeness w.r.t. the depth-indexed notions `WinP r`/`LoseP r` go
  through the re-search and through empty or inverted windows (`OInv`, `ROff`; `node_off`).
  In `Example.exT` the engine with the table off plays the mate in two (`exT_off`), with the table on
  it plays the mate in three.

## What is true and what is not

* The statement with "keeps the forced mate" read as `KeepsMate` (the move mates at once or forces
  mate on the next move) is FALSE as soon as the game has transpositions between different distances
  from the root, even with an injective hash: mate scores are coded with the distance from the root
  (`scoreMin + mateNode + rd`), entries are stored under the hash of the position and re-used at
  another distance from the root. In `Example.exT` (6 positions, at most 3 moves each, injective
  hash) the driver exits at depth 5 with the mate-in-two score `32665` and the move `0`, which only
  keeps a mate in THREE (`exT_move0`, `exT_strong_fails`); the move that mates in two is `1`.
* What holds in general is the weak reading `KeepsForcedMate` (after the move the opponent cannot
  escape a forced mate, of some length) and the self-stop at depth `≤ 5`; the strong reading holds
  when a position determines its distance from the root (`Graded`).

## What is proved (module `Mate2Aux6`)

For every game interface `Ops G M` satisfying
* `Bounded o`: static evaluations within `±31767` (as in `Mate.lean`, where it is shown sharp),
* `HashSem o`: positions with the same hash are alike for `Lose`, `Win`, `MateIn1`, `Lost1`, "no
  legal move" (an injective hash gives it: `HashSem.of_injective`; it cannot be dropped:
  `Example.exC`, where a position shares its hash with the root, the mate is never seen and the
  engine stalemates),
* `Narrow o`: NO POSITION HAS MORE THAN THREE LEGAL MOVES, so that every move is searched with the
  full window (`index ≤ fullWindowMaxIndex = 2`) and the null-window re-search never happens (see
  below: this is the hypothesis that is NOT justified by a counterexample),

the statements are

* `mate_in_two_found` (weak reading): fresh table, flag up, hook on or off, no limit or a limit
  `≥ 5`, `ForcedMate2 o g m1` with `m1` kept by the repetition filter, `¬ MateIn1 o g`: the driver
  answers a move `m` with `KeepsForcedMate o g m`, `stopped = false`, no report deeper than 5.
  `mate_in_two_found'`: the form asked for (injective hash, `o.repetition g = none`, hook off).
* `mate_in_two_found_strong` (strong reading): if moreover the hash is injective and the game is
  `Graded` (a level function with `lvl g = 0`, `lvl (push x m) = lvl x + 1` for legal `m`, equal
  hashes have equal levels): `KeepsMate o g m`.
* `driver_mate_sound` (soundness at EVERY depth): fresh table, flag up, hook on or off, ANY limit,
  the repetition filter keeps all root moves, at least two of them: the driver is not stopped; if
  the last score is above `31767` the move answered keeps a forced mate; if it is below `-31768`
  the root cannot escape a forced mate.
* `node_ok`, `rootSearch_ok`: the contracts of `get_best_move_score` and `get_best_move_entry` at
  every depth, for every non-empty window: value in `[min b (-32668), max a 32668]`; a value above
  `max a 31767` certifies `S.W rem x` ("won"), a value below `min b (-31767)` certifies `S.L rem x`
  ("lost"); the same for every table entry under its flag (`TInv`); completeness for the two shapes
  of the mate in two (`Compl`: a `MateIn1` position searched with `remaining ≥ 3` gets a winning
  mate-range value, a `Lost1` position searched with `remaining ≥ 4` a losing one, as far as the
  window allows). They are proved once for an abstract notion `S : Sem o`, with two instances:
  `Sem.plain` (`Win`/`Lose`, unbounded length: the weak reading) and `Sem.graded`
  (`WinP r`/`LoseP r`, "as seen with `r` plies left": the strong reading).

## What is NOT proved, and why (`Narrow`)

Without `Narrow` the soundness invariant is not inductive, because of two features of
`get_best_move_score` (moves of index `≥ 3`):
* (Q1) after a null-window probe with `test > best_score` the re-search result OVERWRITES
  `best_score` (`best_score = score`), even when it is lower than the previous one; the entry then
  stored can be flagged `upper`/`exact` with a losing mate-range score although an earlier move was
  fine: an entry saying "this position is lost" for a position that is not. The same overwrite
  exists in `get_best_move_entry` (`rootLoop`: `(-v2) (some m)` unconditionally).
* (Q2) the re-search window `(-beta, -test)` is empty or inverted when `test ≥ beta`; the child then
  cuts after ONE move and may store an `upper` entry although only one move was searched.
Both need a re-search that contradicts its probe; a table entry of sufficient depth stored elsewhere
(a transposition, or an earlier visit of the same node in the same iteration whose entry blocks the
store of the probe's result) can produce one. No misbehaviour of the driver was found by random
search (about 500 000 random games with up to 8 moves per position: every mate-range entry and
every reported mate-range score was sound, every forced mate in two was reported at depth `≤ 5`
with a move keeping a forced mate; the strong reading never failed on 15 000 tree-shaped games),
so the full statement

  theorem mate_in_two_found_full (o) (hb : Bounded o) (hs : HashSem o) (g) (m1)
      (h2 : ForcedMate2 o g m1) (hk : m1 ∈ rootMoves o g) (hno1 : ¬ MateIn1 o g) (runs)
      (hr : ∀ i, runs i = true) (off) (md) (hmd : md = none ∨ ∃ N, md = some N ∧ 5 ≤ N) :
      let out := driver o runs g {} off md
      ∃ m, out.found = some m ∧ KeepsForcedMate o g m ∧ out.stopped = false ∧
        ∀ info ∈ out.infos, info.depth ≤ 5

is OPEN. What is missing is exactly the `else` branch of `nodeStep` (moves of index `≥ 3`) in
`LInv.step`/`nodeLoop_ok` and the corresponding branch of `rootLoop` in `rootLoop_ok`: everything
else (`ttCut_ok`, the stores, the leaves, the driver) is proved without `Narrow`. In that branch the
clauses `nU`, `nL`, `cU`, `c2` of `LInv` and the soundness of the RETURNED value go through for
non-empty re-search windows; what fails is `cL` and `c1` for the stored `bestScore` (Q1), and the
case `test ≥ beta` (Q2).

## The other hypotheses

* `m1 ∈ rootMoves o g`: the repetition filter must keep the move (as in `Mate.lean`).
* `¬ MateIn1 o g`: with a mate in one the driver stops at depth 3 (`Mate.mate_in_one_found`).
* depth 5 is sharp: with a limit of 4 the mate is not seen (`#guard` on `Example.ex2`: score
  `30765` at depth 4).
-/

/-!
## Example games

Positions are `Fin n`, moves are `Nat`, a game is given by tables. `Std.HashMap` does not reduce in
the kernel: what the driver does is obtained by applying the theorems; the `#guard`s are side checks
by evaluation; the facts about the games themselves are kernel-checked by `decide`.
-/
namespace Chess.Search.Mate2.Example
open Chess.Search Chess.Search.Mate Chess.Search.Mate2

def tbl {α : Type} (d : α) (l : List (List α)) (g m : Nat) : α := ((l.getD g []).getD m d)

/-- a game on `Fin (n + 1)` given by tables: successors, legal moves, pseudo-legal moves,
evaluations, "not in check" flags, ordering keys, hashes -/
def mk (n : Nat) (succ : List (List Nat)) (chk unchk : List (List Nat)) (ev : List Int)
    (safe : List Bool) (key : List Nat) (hs : List UInt64) : Ops (Fin (n + 1)) Nat where
  checked g := chk.getD g.val []
  unchecked g := unchk.getD g.val []
  push g m := ⟨tbl 0 succ g.val m % (n + 1), Nat.mod_lt _ (Nat.succ_pos n)⟩
  eval g := ev.getD g.val 0
  safe g := safe.getD g.val true
  hash g := hs.getD g.val 0
  tactical _ := false
  histIdx m := some m
  orderKey m h := key.getD m 0 + h m
  repetition _ := none

/-! ## a graded game with a forced mate in two

The move `m` leads from `g` to `3 * g + m`. The root `0` has the moves `1, 2, 3`; after `2` the
replies `1, 2` lead to `7, 8`, where `1` mates (`22` and `25` are in check without moves). -/

def ex2 : Ops (Fin 27) Nat :=
  mk 26
    ((List.range 27).map fun g => [0, 3 * g + 1, 3 * g + 2, 3 * g + 3])
    [[1, 2, 3], [1, 2], [1, 2], [1, 2], [], [], [], [1, 2], [1]]
    [[1, 2, 3], [1, 2], [1, 2], [1, 2], [], [], [], [1, 2], [1]]
    ((List.range 27).map fun g => ((g % 7 : Nat) : Int) - 3)
    ((List.range 27).map fun g => g != 22 && g != 25)
    [0, 1, 2, 3]
    ((List.range 27).map fun g => g.toUInt64)

def lvl2 (x : Fin 27) : Nat := if x.val = 0 then 0 else if x.val ≤ 3 then 1 else if x.val ≤ 12 then 2 else 3

theorem ex2_bounded : Bounded ex2 := by unfold Bounded; decide
theorem ex2_narrow : Narrow ex2 := by unfold Narrow; decide
theorem ex2_inj : ∀ x y, ex2.hash x = ex2.hash y → x = y := by decide
theorem ex2_graded : Graded ex2 0 lvl2 where
  root := rfl
  step := by decide
  hash := fun x y e => ex2_inj x y e ▸ rfl
theorem ex2_forced : ForcedMate2 ex2 0 2 := by
  unfold ForcedMate2 Lost1 MateIn1 Mated; decide
theorem ex2_no1 : ¬ MateIn1 ex2 0 := by unfold MateIn1 Mated; decide
theorem ex2_unique (m : Nat) (h : KeepsMate ex2 0 m) : m = 2 := by
  have hm : m = 1 ∨ m = 2 ∨ m = 3 := by
    have := h.1
    simpa [ex2, mk] using this
  rcases hm with rfl | rfl | rfl
  · exact absurd h.2 (by unfold Lost1 MateIn1 Mated; decide)
  · rfl
  · exact absurd h.2 (by unfold Lost1 MateIn1 Mated; decide)

/-- the engine plays the move that mates in two, without limit or with any limit of at least 5,
whatever the hook, stops by itself and searches no deeper than 5 -/
theorem ex2_plays (off : Bool) (md : Option Nat) (hmd : md = none ∨ ∃ N, md = some N ∧ 5 ≤ N) :
    (driver ex2 (fun _ => true) 0 {} off md).found = some 2 ∧
    (driver ex2 (fun _ => true) 0 {} off md).stopped = false ∧
    ∀ info ∈ (driver ex2 (fun _ => true) 0 {} off md).infos, info.depth ≤ 5 := by
  obtain ⟨m, h1, h2, h3, h4⟩ := mate_in_two_found_strong ex2 ex2_bounded ex2_narrow 0 ex2_inj lvl2
    ex2_graded 2 ex2_forced ex2_forced.1 ex2_no1 _ (fun _ => rfl) off md hmd
  rw [ex2_unique m h2] at h1
  exact ⟨h1, h3, h4⟩

#guard (driver ex2 (fun _ => true) 0 {} false none).found == some 2
#guard (driver ex2 (fun _ => true) 0 {} false none).stopped == false
#guard (driver ex2 (fun _ => true) 0 {} false none).infos.map (fun i => (i.depth, i.score)) ==
  [(1, 2), (2, 0), (3, 0), (4, 30765), (5, 32665)]
#guard (driver ex2 (fun _ => true) 0 {} true none).found == some 2
-- with a limit of 4 the mate is not seen
#guard (driver ex2 (fun _ => true) 0 {} false (some 4)).infos.map (fun i => (i.depth, i.score)) ==
  [(1, 2), (2, 0), (3, 0), (4, 30765)]

/-! ## transpositions: the strong reading fails, the weak one holds

Six positions, at most three moves each, the position is its own hash (up to `+ 1`). The move `1`
of the root leads to `5`, whose only move leads to `4`, where the move `0` mates (`3` is in check
without moves): a forced mate in two. The move `0` of the root leads to `1`, which is lost in two
more moves but not in one. The move `2` of the root leads back to the root, so that the position
`1` is met at distance 1 and at distance 3 from the root, and so on: the game is not graded. The
driver exits at depth 5 with the mate-in-two score `32665` and answers `0`. -/

def exT : Ops (Fin 6) Nat :=
  mk 5 [[1, 5, 0], [2, 5, 4], [5, 0, 1], [3, 3, 0], [3, 4, 4], [4, 1, 3]]
    [[0, 1, 2], [0, 2], [0], [], [0, 1, 2], [0]]
    [[0, 1, 2], [], [0], [0, 2], [1], []]
    [26, -33, -282, 19, 258, -180]
    [false, false, false, false, true, false]
    [1, 4, 1]
    [1, 2, 3, 4, 5, 6]

theorem exT_bounded : Bounded exT := by unfold Bounded; decide
theorem exT_narrow : Narrow exT := by unfold Narrow; decide
theorem exT_inj : ∀ x y, exT.hash x = exT.hash y → x = y := by decide
theorem exT_forced : ForcedMate2 exT 0 1 := by
  unfold ForcedMate2 Lost1 MateIn1 Mated; decide
theorem exT_no1 : ¬ MateIn1 exT 0 := by unfold MateIn1 Mated; decide
/-- the move `0` does not keep the mate in two ... -/
theorem exT_strong_fails : ¬ KeepsMate exT 0 0 := by
  unfold KeepsMate Lost1 MateIn1 Mated; decide
/-- ... it keeps a mate in three -/
theorem exT_move0 : KeepsMateWithin exT 2 0 0 := by
  unfold KeepsMateWithin
  simp only [LoseIn]
  unfold Mated
  decide
theorem exT_not_graded : ¬ ∃ lvl, Graded exT 0 lvl := by
  rintro ⟨lvl, h⟩
  have := h.step 0 2 (by decide)
  have e : exT.push 0 2 = 0 := by decide
  rw [e] at this
  omega

/-- the weak theorem applies to `exT` -/
theorem exT_weak (md : Option Nat) (hmd : md = none ∨ ∃ N, md = some N ∧ 5 ≤ N) :
    ∃ m, (driver exT (fun _ => true) 0 {} false md).found = some m ∧ KeepsForcedMate exT 0 m ∧
      (driver exT (fun _ => true) 0 {} false md).stopped = false ∧
      ∀ info ∈ (driver exT (fun _ => true) 0 {} false md).infos, info.depth ≤ 5 :=
  mate_in_two_found' exT exT_bounded exT_narrow 0 exT_inj ⟨1, exT_forced⟩ exT_no1 rfl _
    (fun _ => rfl) md hmd

-- what the driver does (by evaluation): it answers `0`, with the mate-in-two score
#guard (driver exT (fun _ => true) 0 {} false none).found == some 0
#guard (driver exT (fun _ => true) 0 {} false none).infos.map (fun i => (i.depth, i.score)) ==
  [(1, 29767), (2, 30767), (3, -258), (4, 258), (5, 32665)]

/-- with the table switched off the engine plays the mate in two in `exT` (`mate_in_two_found_off`
needs neither `Narrow` nor anything on the hash) -/
theorem exT_unique (m : Nat) (h : KeepsMate exT 0 m) : m = 1 := by
  have hm : m = 0 ∨ m = 1 ∨ m = 2 := by
    have := h.1
    simpa [exT, mk] using this
  rcases hm with rfl | rfl | rfl
  · exact absurd h exT_strong_fails
  · rfl
  · exact absurd h (by unfold KeepsMate Lost1 MateIn1 Mated; decide)

theorem exT_off (md : Option Nat) (hmd : md = none ∨ ∃ N, md = some N ∧ 5 ≤ N) :
    (driver exT (fun _ => true) 0 {} true md).found = some 1 ∧
    (driver exT (fun _ => true) 0 {} true md).stopped = false ∧
    ∀ info ∈ (driver exT (fun _ => true) 0 {} true md).infos, info.depth ≤ 5 := by
  obtain ⟨m, h1, h2, h3, h4⟩ := mate_in_two_found_off exT exT_bounded 0 1 exT_forced.1
    ⟨exT_forced.1, Or.inr exT_forced.2⟩ _ (fun _ => rfl) md hmd
  rw [exT_unique m h2] at h1
  exact ⟨h1, h3, h4⟩

#guard (driver exT (fun _ => true) 0 {} true none).found == some 1

/-! ## a hash collision: `HashSem` cannot be dropped

Seven positions, at most three moves each. The move `0` of the root leads to `2`, whose only move
leads to `4`, where the move `0` mates: a forced mate in two. With the position as its own hash the
engine plays it (`exC'_plays`). If `4` shares its hash with the root, the entry of the root is used
at `4`: the mate is never seen, the engine answers `2` (which stalemates) and searches on. -/

def exCwith (hs : List UInt64) : Ops (Fin 7) Nat :=
  mk 6 [[2, 0, 1], [4, 2, 4], [2, 4, 3], [6, 6, 5], [5, 2, 1], [4, 4, 3], [1, 0, 2]]
    [[0, 1, 2], [], [1], [0, 1, 2], [0, 1], [], []]
    [[0, 1, 2], [0, 1], [1, 2], [1], [], [2], []]
    [-42, -73, 130, 229, 191, 142, -260]
    [false, true, false, false, true, false, false]
    [3, 1, 0]
    hs

def exC : Ops (Fin 7) Nat := exCwith [0, 2, 3, 4, 0, 6, 7]
def exC' : Ops (Fin 7) Nat := exCwith [1, 2, 3, 4, 5, 6, 7]

theorem exC_bounded : Bounded exC := by unfold Bounded; decide
theorem exC_narrow : Narrow exC := by unfold Narrow; decide
theorem exC_forced : ForcedMate2 exC 0 0 := by
  unfold ForcedMate2 Lost1 MateIn1 Mated; decide
theorem exC_no1 : ¬ MateIn1 exC 0 := by unfold MateIn1 Mated; decide
theorem exC_collision : exC.hash 4 = exC.hash 0 := by decide
/-- after the move `2` the opponent is stalemated: no forced mate is kept -/
theorem exC_move2 : ¬ KeepsForcedMate exC 0 2 := by
  rintro ⟨_, k, hk⟩
  have hs : exC.safe (exC.push 0 2) = true := by decide
  have hn : exC.checked (exC.push 0 2) = [] := by decide
  cases k with
  | zero => exact absurd hk.2 (by rw [hs]; decide)
  | succ k =>
    rcases hk with hk | hk
    · exact absurd hk.2 (by rw [hs]; decide)
    · exact hk.1 hn

theorem exC'_bounded : Bounded exC' := by unfold Bounded; decide
theorem exC'_narrow : Narrow exC' := by unfold Narrow; decide
theorem exC'_inj : ∀ x y, exC'.hash x = exC'.hash y → x = y := by decide
theorem exC'_forced : ForcedMate2 exC' 0 0 := by
  unfold ForcedMate2 Lost1 MateIn1 Mated; decide
theorem exC'_no1 : ¬ MateIn1 exC' 0 := by unfold MateIn1 Mated; decide

/-- with an injective hash the engine keeps the mate -/
theorem exC'_plays (md : Option Nat) (hmd : md = none ∨ ∃ N, md = some N ∧ 5 ≤ N) :
    ∃ m, (driver exC' (fun _ => true) 0 {} false md).found = some m ∧ KeepsForcedMate exC' 0 m ∧
      (driver exC' (fun _ => true) 0 {} false md).stopped = false ∧
      ∀ info ∈ (driver exC' (fun _ => true) 0 {} false md).infos, info.depth ≤ 5 :=
  mate_in_two_found' exC' exC'_bounded exC'_narrow 0 exC'_inj ⟨0, exC'_forced⟩ exC'_no1 rfl _
    (fun _ => rfl) md hmd

#guard (driver exC' (fun _ => true) 0 {} false none).found == some 0
-- with the collision: the move 2, no mate score, the search goes on to the limit
#guard (driver exC (fun _ => true) 0 {} false (some 9)).found == some 2
#guard (driver exC (fun _ => true) 0 {} false (some 9)).infos.map (fun i => (i.depth, i.score)) ==
  [(1, 73), (2, 0), (3, 0), (4, 0), (5, 0), (6, 0), (7, 0), (8, 0), (9, 0)]

/-! ## Axioms -/

#print axioms node_ok
#print axioms rootSearch_ok
#print axioms mate_in_two_found
#print axioms mate_in_two_found_strong
#print axioms mate_in_two_found'
#print axioms driver_mate_sound
#print axioms node_off
#print axioms mate_in_two_found_off
#print axioms exT_off
#print axioms ex2_plays
#print axioms exT_weak
#print axioms exT_strong_fails
#print axioms exC_move2

end Chess.Search.Mate2.Example
