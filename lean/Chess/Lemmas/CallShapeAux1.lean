import Chess.Lemmas.SearchF

/-!
# The STRICT search: `nodeF` … `driverF` with CHECKED table accesses and an observer of the calls

`Chess/Model/SearchF.lean` reads the killer table with `getD` and writes it with `setIfInBounds`
(likewise the history table): an index outside the table would silently do nothing in the model,
while `killer_moves[real_depth as usize]` / `history[index]` in `search.rs` panic. The functions of
this file (`nodeS`, `nodeLoopS`, `rootLoopS`, `rootSearchS`, `driverLoopS`, `driverS`) are the `…F`
functions over a state `SS M = St M` + three sticky flags:

* `oobK` is raised by a killer read `killers[i]?` that misses and by a killer write with
  `¬ i < killers.size`;
* `oobH` is raised by a history update (`history[i] += …`: one read, one write, same index) with
  `¬ i < history.size`;
* `offShape` is raised at the entry of a node whose `(remaining, rd)` fails the observer
  `obs : Nat → Int → Bool` given by the caller (this turns "every call made in the run satisfies …"
  into a statement about a flag).

On a miss the tables are left as they are and the default is read, exactly as the total accessors
do, so the `St` component of a strict run IS the faithful run whatever the flags say
(`CallShapeAux2`: erasure, and the flags are sticky); what has to be proved is that the flags are
never raised (`CallShapeAux3`).

Not instrumented: the history reads made by `o.orderKey m (fun i => history.getD i 0)` while
sorting: `orderKey` is an opaque function of the game interface, which indices it reads is a
property of the game (for chess: the single index `m.indexHistory`, see `CallShape.lean`).
-/
namespace Chess.Search.Shape

open Chess.Search Chess.Search.F

variable {G M : Type}

/-- the search state with the three flags -/
structure SS (M : Type) where
  st : St M
  /-- a killer access was out of range -/
  oobK : Bool := false
  /-- a history access was out of range -/
  oobH : Bool := false
  /-- a node was entered with `(remaining, rd)` rejected by the observer -/
  offShape : Bool := false

/-- a state with all flags clear -/
def SS.ok (st : St M) : SS M := ⟨st, false, false, false⟩

/-! ## the checked accesses -/

/-- `killer_moves[i]` (read): a miss raises `oobK` and reads the default of `getD` -/
def readKiller (s : SS M) (i : Nat) : Option M × SS M :=
  match s.st.killers[i]? with
  | some k => (k, s)
  | none => (none, { s with oobK := true })

/-- `killer_moves[i] = Some(m)`: outside the table `oobK` is raised and nothing is written -/
def writeKiller (s : SS M) (i : Nat) (m : M) : SS M :=
  if h : i < s.st.killers.size then
    { s with st := { s.st with killers := s.st.killers.set i (some m) h } }
  else { s with oobK := true }

/-- `history[i] += bonus(history[i])`: outside the table `oobH` is raised and nothing is written -/
def bumpHistory (s : SS M) (i : Nat) (remaining : Nat) : SS M :=
  if h : i < s.st.history.size then
    { s with st := { s.st with history := s.st.history.set i (historyBonus remaining s.st.history[i]) h } }
  else { s with oobH := true }

/-- the observer at the entry of a node -/
def observe (obs : Nat → Int → Bool) (remaining : Nat) (rd : Int) (s : SS M) : SS M :=
  if obs remaining rd then s else { s with offShape := true }

/-- what a beta cut-off does to the tables, strict -/
def cutUpdS (o : Ops G M) (remaining : Nat) (rd : Int) (m : M) (s : SS M) : SS M :=
  let s := writeKiller s rd.toNat m
  match o.histIdx m with
  | some i => bumpHistory s i remaining
  | none => s

/-- what a beta cut-off does to the tables in `nodeLoopF` -/
def cutUpdF (o : Ops G M) (remaining : Nat) (rd : Int) (m : M) (st : St M) : St M :=
  let st := { st with killers := st.killers.setIfInBounds rd.toNat (some m) }
  match o.histIdx m with
  | some i => { st with history := st.history.setIfInBounds i (historyBonus remaining (st.history.getD i 0)) }
  | none => st

/-! ## the strict search -/

abbrev LoopResS (M : Type) := SS M × Option (Int × Int × Option M)

/-- `nodeLoopF` with the checked table accesses at the cut-off -/
def nodeLoopS (o : Ops G M) (child : G → Int → Int → Int → SS M → SS M × Option Int)
    (g : G) (remaining : Nat) (rd : Int) (beta : Int) :
    List M → Nat → Int → Int → Option M → SS M → LoopResS M
  | [], _, alpha, bestScore, bestMove, st => (st, some (alpha, bestScore, bestMove))
  | m :: ms, index, alpha, bestScore, bestMove, st =>
    let g' := o.push g m
    let step : SS M × Option (Int × Int × Option M) :=
      if index ≤ Gen.fullWindowMaxIndex then
        match child g' (-beta) (-alpha) (rd + 1) st with
        | (st, none) => (st, none)
        | (st, some v) =>
          let score := -v
          let (bestScore, bestMove) := if score > bestScore then (score, some m) else (bestScore, bestMove)
          (st, some (max alpha score, bestScore, bestMove))
      else
        match child g' (-alpha - 1) (-alpha) (rd + 1) st with
        | (st, none) => (st, none)
        | (st, some v) =>
          let test := -v
          if test > bestScore then
            match child g' (-beta) (-test) (rd + 1) st with
            | (st, none) => (st, none)
            | (st, some v2) =>
              let score := -v2
              (st, some (max alpha score, score, some m))
          else (st, some (alpha, bestScore, bestMove))
    match step with
    | (st, none) => (st, none)
    | (st, some (alpha, bestScore, bestMove)) =>
      if alpha ≥ beta then
        (cutUpdS o remaining rd m st, some (alpha, bestScore, bestMove))
      else nodeLoopS o child g remaining rd beta ms (index + 1) alpha bestScore bestMove st

/-- one iteration of `nodeLoopS` before the cut-off test -/
def nodeStepS (o : Ops G M) (child : G → Int → Int → Int → SS M → SS M × Option Int)
    (g : G) (rd beta : Int) (m : M) (index : Nat) (alpha bestScore : Int) (bestMove : Option M)
    (st : SS M) : LoopResS M :=
  let g' := o.push g m
  if index ≤ Gen.fullWindowMaxIndex then
    match child g' (-beta) (-alpha) (rd + 1) st with
    | (st, none) => (st, none)
    | (st, some v) =>
      let score := -v
      let (bestScore, bestMove) := if score > bestScore then (score, some m) else (bestScore, bestMove)
      (st, some (max alpha score, bestScore, bestMove))
  else
    match child g' (-alpha - 1) (-alpha) (rd + 1) st with
    | (st, none) => (st, none)
    | (st, some v) =>
      let test := -v
      if test > bestScore then
        match child g' (-beta) (-test) (rd + 1) st with
        | (st, none) => (st, none)
        | (st, some v2) =>
          let score := -v2
          (st, some (max alpha score, score, some m))
      else (st, some (alpha, bestScore, bestMove))

theorem nodeLoopS_nil (o : Ops G M) (child : G → Int → Int → Int → SS M → SS M × Option Int)
    (g : G) (remaining : Nat) (rd beta : Int) (index : Nat)
    (alpha bestScore : Int) (bestMove : Option M) (st : SS M) :
    nodeLoopS o child g remaining rd beta [] index alpha bestScore bestMove st =
      (st, some (alpha, bestScore, bestMove)) := rfl

theorem nodeLoopS_cons (o : Ops G M) (child : G → Int → Int → Int → SS M → SS M × Option Int)
    (g : G) (remaining : Nat) (rd beta : Int) (m : M) (ms : List M) (index : Nat)
    (alpha bestScore : Int) (bestMove : Option M) (st : SS M) :
    nodeLoopS o child g remaining rd beta (m :: ms) index alpha bestScore bestMove st =
      match nodeStepS o child g rd beta m index alpha bestScore bestMove st with
      | (st, none) => (st, none)
      | (st, some (alpha, bestScore, bestMove)) =>
        if alpha ≥ beta then (cutUpdS o remaining rd m st, some (alpha, bestScore, bestMove))
        else nodeLoopS o child g remaining rd beta ms (index + 1) alpha bestScore bestMove st := by
  rfl

/-- `nodeLoopF_cons` with the cut-off update named -/
theorem nodeLoopF_cons' (o : Ops G M) (child : G → Int → Int → Int → St M → St M × Option Int)
    (g : G) (remaining : Nat) (rd beta : Int) (m : M) (ms : List M) (index : Nat)
    (alpha bestScore : Int) (bestMove : Option M) (st : St M) :
    nodeLoopF o child g remaining rd beta (m :: ms) index alpha bestScore bestMove st =
      match nodeStepF o child g rd beta m index alpha bestScore bestMove st with
      | (st, none) => (st, none)
      | (st, some (alpha, bestScore, bestMove)) =>
        if alpha ≥ beta then (cutUpdF o remaining rd m st, some (alpha, bestScore, bestMove))
        else nodeLoopF o child g remaining rd beta ms (index + 1) alpha bestScore bestMove st := by
  rfl

variable [DecidableEq M]

/-- the sorted move list of an interior node, with the killer already read -/
def nodeMovesK (o : Ops G M) (g : G) (killer : Option M) (st : St M) : List M :=
  sortMoves (moveKey o ((ttGet st (o.hash g)).bind (·.pv)) killer st.history) (o.checked g)

theorem nodeMoves_eq (o : Ops G M) (g : G) (rd : Int) (st : St M) :
    nodeMoves o g rd st = nodeMovesK o g (st.killers.getD rd.toNat none) st := rfl

/-- `nodeF` (in the form of `F.nodeF_eq`) with the observer at the entry and the checked killer
read -/
def nodeS (o : Ops G M) (runs : Nat → Bool) (obs : Nat → Int → Bool) :
    Nat → G → Int → Int → Int → SS M → SS M × Option Int
  | remaining, g, alpha, beta, rd, s =>
    let s := observe obs remaining rd s
    if !runs s.st.polls then ({ s with st := abortSt s.st }, none) else
    let s : SS M := { s with st := pollSt s.st }
    match ttCut (ttGet s.st (o.hash g)) remaining alpha beta with
    | some v => (s, some v)
    | none =>
      match remaining with
      | 0 => (s, some (qsearch o qFuel g alpha beta rd))
      | 1 => (s, some (depth1 o g alpha beta rd))
      | r + 2 =>
        if (o.checked g).isEmpty then
          (s, some (if o.safe g then 0 else scoreMin + Gen.mateNode + rd))
        else
          let k := readKiller s rd.toNat
          match nodeLoopS o (nodeS o runs obs (r + 1)) g (r + 2) rd beta
              (nodeMovesK o g k.1 k.2.st) 0 alpha scoreMin none k.2 with
          | (s, none) => (s, none)
          | (s, some (outAlpha, bestScore, bestMove)) =>
            ({ s with st := (nodeStore (o.hash g) (r + 2)
                ⟨bestScore, bestMove, r + 2, storeFlag bestScore alpha beta⟩ s.st) }, some outAlpha)

theorem nodeS_eq (o : Ops G M) (runs : Nat → Bool) (obs : Nat → Int → Bool) (remaining : Nat)
    (g : G) (α β rd : Int) (s : SS M) :
    nodeS o runs obs remaining g α β rd s =
      if !runs (observe obs remaining rd s).st.polls then
        ({ observe obs remaining rd s with st := abortSt (observe obs remaining rd s).st }, none)
      else
      match ttCut (ttGet (pollSt (observe obs remaining rd s).st) (o.hash g)) remaining α β with
      | some v => ({ observe obs remaining rd s with st := pollSt (observe obs remaining rd s).st }, some v)
      | none =>
        match remaining with
        | 0 => ({ observe obs remaining rd s with st := pollSt (observe obs remaining rd s).st },
                  some (qsearch o qFuel g α β rd))
        | 1 => ({ observe obs remaining rd s with st := pollSt (observe obs remaining rd s).st },
                  some (depth1 o g α β rd))
        | r + 2 =>
          if (o.checked g).isEmpty then
            ({ observe obs remaining rd s with st := pollSt (observe obs remaining rd s).st },
              some (if o.safe g then 0 else scoreMin + Gen.mateNode + rd))
          else
            match nodeLoopS o (nodeS o runs obs (r + 1)) g (r + 2) rd β
                (nodeMovesK o g
                  (readKiller { observe obs remaining rd s with st := pollSt (observe obs remaining rd s).st }
                    rd.toNat).1
                  (readKiller { observe obs remaining rd s with st := pollSt (observe obs remaining rd s).st }
                    rd.toNat).2.st) 0 α scoreMin none
                (readKiller { observe obs remaining rd s with st := pollSt (observe obs remaining rd s).st }
                    rd.toNat).2 with
            | (s', none) => (s', none)
            | (s', some (outAlpha, bestScore, bestMove)) =>
              ({ s' with st := (nodeStore (o.hash g) (r + 2)
                  ⟨bestScore, bestMove, r + 2, storeFlag bestScore α β⟩ s'.st) }, some outAlpha) := by
  unfold nodeS
  rfl

/-- `rootLoopF` over the strict state -/
def rootLoopS (o : Ops G M) (child : G → Int → Int → Int → SS M → SS M × Option Int) (g : G) :
    List M → Nat → Int → Option M → SS M → SS M × Option (Int × Option M)
  | [], _, bestScore, bestMove, st => (st, some (bestScore, bestMove))
  | m :: ms, index, bestScore, bestMove, st =>
    let g' := o.push g m
    if index ≤ Gen.fullWindowMaxIndex then
      match child g' (scoreMin + 1) (-bestScore) 1 st with
      | (st, none) => (st, none)
      | (st, some v) =>
        let score := -v
        if score > bestScore then rootLoopS o child g ms (index + 1) score (some m) st
        else rootLoopS o child g ms (index + 1) bestScore bestMove st
    else
      match child g' (-bestScore - 1) (-bestScore) 1 st with
      | (st, none) => (st, none)
      | (st, some v) =>
        let score := -v
        if score > bestScore then
          match child g' (scoreMin + 1) (-score) 1 st with
          | (st, none) => (st, none)
          | (st, some v2) => rootLoopS o child g ms (index + 1) (-v2) (some m) st
        else rootLoopS o child g ms (index + 1) bestScore bestMove st

/-- `rootSearchF` (in the form of `F.rootSearchF_eq`) over the strict state -/
def rootSearchS (o : Ops G M) (runs : Nat → Bool) (obs : Nat → Int → Bool) (g : G) (depth : Nat)
    (s : SS M) : SS M × Option (Option M × Int × Bool) :=
  if (o.checked g).length = 1 then (s, some ((o.checked g).head?, 0, true)) else
  match rootHit (ttGet (rootSt s.st) (o.hash g)) depth with
  | some e => ({ s with st := rootSt s.st }, some (e.pv, e.score, false))
  | none =>
    match rootLoopS o (nodeS o runs obs (depth - 1)) g (rootSorted o g (rootSt s.st)) 0 (scoreMin + 1)
        none { s with st := rootSt s.st } with
    | (s', none) => (s', none)
    | (s', some (bestScore, bestMove)) =>
      ({ s' with st := rootStore (o.hash g) depth ⟨bestScore, bestMove, depth, .exact⟩ s'.st },
        some (bestMove, bestScore, false))

/-- what the strict driver returns: the `DriverOut` and the flags of the final state -/
structure DriverOutS (M : Type) where
  out : DriverOut M
  oobK : Bool
  oobH : Bool
  offShape : Bool

def mkOutS (found : Option M) (infos : List (Info M)) (s : SS M) (stopped : Bool) : DriverOutS M :=
  ⟨⟨found, infos, s.st, stopped⟩, s.oobK, s.oobH, s.offShape⟩

/-- `driverLoopF` over the strict state; the observer may depend on the depth of the iteration -/
def driverLoopS (o : Ops G M) (runs : Nat → Bool) (obs : Nat → Nat → Int → Bool) (g : G)
    (limit : Nat) : Nat → Nat → Option M → List (Info M) → SS M → DriverOutS M
  | 0, _, found, infos, s => mkOutS found infos.reverse s false
  | fuel + 1, depth, found, infos, s =>
    match rootSearchS o runs (obs depth) g depth s with
    | (s', none) => mkOutS found infos.reverse s' true
    | (s', some (bm, sc, only)) =>
      if exitCond limit depth only sc then
        mkOutS (bm.or found) (mkInfo o g depth sc s'.st :: infos).reverse s' false
      else driverLoopS o runs obs g limit fuel (depth + 1) (bm.or found)
        (mkInfo o g depth sc s'.st :: infos) s'

theorem driverLoopS_zero (o : Ops G M) (runs : Nat → Bool) (obs : Nat → Nat → Int → Bool) (g : G)
    (limit depth : Nat) (found : Option M) (infos : List (Info M)) (s : SS M) :
    driverLoopS o runs obs g limit 0 depth found infos s = mkOutS found infos.reverse s false := rfl

theorem driverLoopS_succ (o : Ops G M) (runs : Nat → Bool) (obs : Nat → Nat → Int → Bool) (g : G)
    (limit fuel depth : Nat) (found : Option M) (infos : List (Info M)) (s : SS M) :
    driverLoopS o runs obs g limit (fuel + 1) depth found infos s =
      match rootSearchS o runs (obs depth) g depth s with
      | (s', none) => mkOutS found infos.reverse s' true
      | (s', some (bm, sc, only)) =>
        if exitCond limit depth only sc then
          mkOutS (bm.or found) (mkInfo o g depth sc s'.st :: infos).reverse s' false
        else driverLoopS o runs obs g limit fuel (depth + 1) (bm.or found)
          (mkInfo o g depth sc s'.st :: infos) s' := rfl

/-- `driverF` over the strict state, started with all flags clear -/
def driverS (o : Ops G M) (runs : Nat → Bool) (obs : Nat → Nat → Int → Bool) (g : G) (tt : Table M)
    (ttOff : Bool) (maxDepthArg : Option Nat) : DriverOutS M :=
  driverLoopS o runs obs g (limitOf maxDepthArg)
    (limitOf maxDepthArg - startDepth o g tt maxDepthArg + 1) (startDepth o g tt maxDepthArg)
    (o.checked g).head? [] (SS.ok (initSt tt ttOff))

/-! ## the checked accesses against the total ones -/

omit [DecidableEq M] in
theorem readKiller_fst (s : SS M) (i : Nat) : (readKiller s i).1 = s.st.killers.getD i none := by
  unfold readKiller
  rw [Array.getD_eq_getD_getElem?]
  cases s.st.killers[i]? <;> rfl

omit [DecidableEq M] in
theorem readKiller_st (s : SS M) (i : Nat) : (readKiller s i).2.st = s.st := by
  unfold readKiller
  cases s.st.killers[i]? <;> rfl

omit [DecidableEq M] in
theorem readKiller_oobH (s : SS M) (i : Nat) : (readKiller s i).2.oobH = s.oobH := by
  unfold readKiller
  cases s.st.killers[i]? <;> rfl

omit [DecidableEq M] in
theorem readKiller_offShape (s : SS M) (i : Nat) : (readKiller s i).2.offShape = s.offShape := by
  unfold readKiller
  cases s.st.killers[i]? <;> rfl

omit [DecidableEq M] in
/-- a read inside the table does not touch the flags -/
theorem readKiller_snd_of_lt (s : SS M) (i : Nat) (h : i < s.st.killers.size) :
    (readKiller s i).2 = s := by
  unfold readKiller
  rw [Array.getElem?_eq_getElem h]

omit [DecidableEq M] in
/-- a read outside the table raises the flag -/
theorem readKiller_oobK_of_ge (s : SS M) (i : Nat) (h : s.st.killers.size ≤ i) :
    (readKiller s i).2.oobK = true := by
  unfold readKiller
  rw [Array.getElem?_eq_none h]

omit [DecidableEq M] in
theorem readKiller_oobK_sticky (s : SS M) (i : Nat) (h : s.oobK = true) :
    (readKiller s i).2.oobK = true := by
  unfold readKiller
  cases s.st.killers[i]? <;> simp [h]

omit [DecidableEq M] in
theorem writeKiller_st (s : SS M) (i : Nat) (m : M) :
    (writeKiller s i m).st = { s.st with killers := s.st.killers.setIfInBounds i (some m) } := by
  unfold writeKiller Array.setIfInBounds
  split <;> rfl

omit [DecidableEq M] in
theorem writeKiller_of_lt (s : SS M) (i : Nat) (m : M) (h : i < s.st.killers.size) :
    writeKiller s i m = { s with st := { s.st with killers := s.st.killers.set i (some m) h } } := by
  unfold writeKiller
  rw [dif_pos h]

omit [DecidableEq M] in
theorem writeKiller_oobK_of_ge (s : SS M) (i : Nat) (m : M) (h : s.st.killers.size ≤ i) :
    (writeKiller s i m).oobK = true := by
  unfold writeKiller
  rw [dif_neg (by omega)]

omit [DecidableEq M] in
theorem bumpHistory_st (s : SS M) (i : Nat) (r : Nat) :
    (bumpHistory s i r).st =
      { s.st with history := s.st.history.setIfInBounds i (historyBonus r (s.st.history.getD i 0)) } := by
  unfold bumpHistory Array.setIfInBounds Array.getD
  split
  · rfl
  · rfl

omit [DecidableEq M] in
theorem bumpHistory_of_lt (s : SS M) (i : Nat) (r : Nat) (h : i < s.st.history.size) :
    bumpHistory s i r =
      { s with st := { s.st with history := s.st.history.set i (historyBonus r s.st.history[i]) h } } := by
  unfold bumpHistory
  rw [dif_pos h]

omit [DecidableEq M] in
theorem observe_st (obs : Nat → Int → Bool) (r : Nat) (rd : Int) (s : SS M) :
    (observe obs r rd s).st = s.st := by
  unfold observe
  split <;> rfl

omit [DecidableEq M] in
theorem observe_of_true (obs : Nat → Int → Bool) (r : Nat) (rd : Int) (s : SS M)
    (h : obs r rd = true) : observe obs r rd s = s := by
  unfold observe
  rw [if_pos h]

omit [DecidableEq M] in
theorem observe_of_false (obs : Nat → Int → Bool) (r : Nat) (rd : Int) (s : SS M)
    (h : obs r rd = false) : (observe obs r rd s).offShape = true := by
  unfold observe
  rw [if_neg (by simp [h])]

omit [DecidableEq M] in
/-- the cut-off update of the strict loop is that of `nodeLoopF`, whatever the indices -/
theorem cutUpdS_st (o : Ops G M) (remaining : Nat) (rd : Int) (m : M) (s : SS M) :
    (cutUpdS o remaining rd m s).st = cutUpdF o remaining rd m s.st := by
  unfold cutUpdS cutUpdF
  cases o.histIdx m with
  | none => exact writeKiller_st s rd.toNat m
  | some i =>
    simp only []
    rw [bumpHistory_st, writeKiller_st]

end Chess.Search.Shape
