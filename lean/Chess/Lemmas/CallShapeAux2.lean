import Chess.Lemmas.CallShapeAux1

/-!
# Erasure: the strict search IS the faithful search plus flags, and the flags are sticky

Unconditionally (any state, any `rd`, any `remaining`, any observer): the `St` component and the
answer of `nodeS`/`rootSearchS`/`driverS` are those of `nodeF`/`rootSearchF`/`driverF` run on the
`St` component, and a flag that is up at the start is up at the end. Hence "all flags down at the
end" means that NO checked access of the run missed and NO entered node was rejected by the
observer.
-/
namespace Chess.Search.Shape

open Chess.Search Chess.Search.F

variable {G M : Type}

/-- a raised flag stays raised -/
structure Sticky (s s' : SS M) : Prop where
  k : s.oobK = true → s'.oobK = true
  h : s.oobH = true → s'.oobH = true
  c : s.offShape = true → s'.offShape = true

theorem Sticky.refl (s : SS M) : Sticky s s := ⟨id, id, id⟩

theorem Sticky.trans {a b c : SS M} (h1 : Sticky a b) (h2 : Sticky b c) : Sticky a c :=
  ⟨fun h => h2.k (h1.k h), fun h => h2.h (h1.h h), fun h => h2.c (h1.c h)⟩

/-- changing the `St` component does not touch the flags -/
theorem Sticky.withSt (s : SS M) (st : St M) : Sticky s { s with st := st } := ⟨id, id, id⟩

theorem readKiller_sticky (s : SS M) (i : Nat) : Sticky s (readKiller s i).2 := by
  unfold readKiller
  cases s.st.killers[i]? with
  | none => exact ⟨fun _ => rfl, id, id⟩
  | some k => exact Sticky.refl s

theorem writeKiller_sticky (s : SS M) (i : Nat) (m : M) : Sticky s (writeKiller s i m) := by
  unfold writeKiller
  split
  · exact ⟨id, id, id⟩
  · exact ⟨fun _ => rfl, id, id⟩

theorem bumpHistory_sticky (s : SS M) (i r : Nat) : Sticky s (bumpHistory s i r) := by
  unfold bumpHistory
  split
  · exact ⟨id, id, id⟩
  · exact ⟨id, fun _ => rfl, id⟩

theorem observe_sticky (obs : Nat → Int → Bool) (r : Nat) (rd : Int) (s : SS M) :
    Sticky s (observe obs r rd s) := by
  unfold observe
  split
  · exact Sticky.refl s
  · exact ⟨id, id, fun _ => rfl⟩

theorem cutUpdS_sticky (o : Ops G M) (remaining : Nat) (rd : Int) (m : M) (s : SS M) :
    Sticky s (cutUpdS o remaining rd m s) := by
  unfold cutUpdS
  cases o.histIdx m with
  | none => exact writeKiller_sticky s rd.toNat m
  | some i => exact (writeKiller_sticky s rd.toNat m).trans (bumpHistory_sticky _ i remaining)

/-- the strict result against the faithful one: same state, same answer, flags sticky -/
structure Erase {α : Type} (s : SS M) (rS : SS M × α) (rF : St M × α) : Prop where
  st : rS.1.st = rF.1
  val : rS.2 = rF.2
  sticky : Sticky s rS.1

theorem Erase.mono {α : Type} {s s' : SS M} {rS : SS M × α} {rF : St M × α}
    (h : Sticky s s') (e : Erase s' rS rF) : Erase s rS rF :=
  ⟨e.st, e.val, h.trans e.sticky⟩

/-- a strict child against a faithful child -/
def ChildE (childS : G → Int → Int → Int → SS M → SS M × Option Int)
    (childF : G → Int → Int → Int → St M → St M × Option Int) (g' : G) : Prop :=
  ∀ a b r s, Erase s (childS g' a b r s) (childF g' a b r s.st)

theorem nodeStepS_erase (o : Ops G M)
    (childS : G → Int → Int → Int → SS M → SS M × Option Int)
    (childF : G → Int → Int → Int → St M → St M × Option Int)
    (g : G) (rd β : Int) (m : M) (index : Nat) (α bs : Int) (bm : Option M) (s : SS M)
    (hc : ChildE childS childF (o.push g m)) :
    Erase s (nodeStepS o childS g rd β m index α bs bm s)
      (nodeStepF o childF g rd β m index α bs bm s.st) := by
  unfold nodeStepS nodeStepF
  simp only []
  by_cases hidx : index ≤ Gen.fullWindowMaxIndex
  · simp only [hidx, if_true]
    have h1 := hc (-β) (-α) (rd + 1) s
    cases hS : childS (o.push g m) (-β) (-α) (rd + 1) s with
    | mk s1 x =>
      cases hF : childF (o.push g m) (-β) (-α) (rd + 1) s.st with
      | mk t1 y =>
        rw [hS, hF] at h1
        obtain ⟨e1, e2, k1⟩ := h1
        simp only [] at e1 e2
        subst e1; subst e2
        cases x with
        | none => exact ⟨rfl, rfl, k1⟩
        | some v =>
          simp only []
          by_cases hs : -v > bs <;> simp only [hs, if_true, if_false] <;> exact ⟨rfl, rfl, k1⟩
  · simp only [hidx, if_false]
    have h1 := hc (-α - 1) (-α) (rd + 1) s
    cases hS : childS (o.push g m) (-α - 1) (-α) (rd + 1) s with
    | mk s1 x =>
      cases hF : childF (o.push g m) (-α - 1) (-α) (rd + 1) s.st with
      | mk t1 y =>
        rw [hS, hF] at h1
        obtain ⟨e1, e2, k1⟩ := h1
        simp only [] at e1 e2
        subst e1; subst e2
        cases x with
        | none => exact ⟨rfl, rfl, k1⟩
        | some v =>
          simp only []
          by_cases hs : -v > bs
          · simp only [hs, if_true]
            have h2 := hc (-β) (- -v) (rd + 1) s1
            cases hS2 : childS (o.push g m) (-β) (- -v) (rd + 1) s1 with
            | mk s2 x2 =>
              cases hF2 : childF (o.push g m) (-β) (- -v) (rd + 1) s1.st with
              | mk t2 y2 =>
                rw [hS2, hF2] at h2
                obtain ⟨e3, e4, k2⟩ := h2
                simp only [] at e3 e4
                subst e3; subst e4
                cases x2 with
                | none => exact ⟨rfl, rfl, k1.trans k2⟩
                | some v2 => exact ⟨rfl, rfl, k1.trans k2⟩
          · simp only [hs, if_false]; exact ⟨rfl, rfl, k1⟩

theorem nodeLoopS_erase (o : Ops G M)
    (childS : G → Int → Int → Int → SS M → SS M × Option Int)
    (childF : G → Int → Int → Int → St M → St M × Option Int)
    (g : G) (remaining : Nat) (rd β : Int) (ms : List M)
    (hc : ∀ m ∈ ms, ChildE childS childF (o.push g m))
    (index : Nat) (α bs : Int) (bm : Option M) (s : SS M) :
    Erase s (nodeLoopS o childS g remaining rd β ms index α bs bm s)
      (nodeLoopF o childF g remaining rd β ms index α bs bm s.st) := by
  induction ms generalizing index α bs bm s with
  | nil => exact ⟨rfl, rfl, Sticky.refl s⟩
  | cons m ms ih =>
    rw [nodeLoopS_cons, nodeLoopF_cons']
    have h1 := nodeStepS_erase o childS childF g rd β m index α bs bm s (hc m List.mem_cons_self)
    cases hS : nodeStepS o childS g rd β m index α bs bm s with
    | mk s1 x =>
      cases hF : nodeStepF o childF g rd β m index α bs bm s.st with
      | mk t1 y =>
        rw [hS, hF] at h1
        obtain ⟨e1, e2, k1⟩ := h1
        simp only [] at e1 e2
        subst e1; subst e2
        cases x with
        | none => exact ⟨rfl, rfl, k1⟩
        | some y =>
          obtain ⟨a', bs', bm'⟩ := y
          simp only []
          by_cases hcut : a' ≥ β
          · simp only [hcut, if_true]
            exact ⟨cutUpdS_st o remaining rd m s1, rfl, k1.trans (cutUpdS_sticky o remaining rd m s1)⟩
          · simp only [hcut, if_false]
            exact Erase.mono k1
              (ih (fun m' hm' => hc m' (List.mem_cons_of_mem _ hm')) (index + 1) a' bs' bm' s1)

theorem rootLoopS_erase (o : Ops G M)
    (childS : G → Int → Int → Int → SS M → SS M × Option Int)
    (childF : G → Int → Int → Int → St M → St M × Option Int) (g : G) (ms : List M)
    (hc : ∀ m ∈ ms, ChildE childS childF (o.push g m))
    (index : Nat) (bs : Int) (bm : Option M) (s : SS M) :
    Erase s (rootLoopS o childS g ms index bs bm s) (rootLoopF o childF g ms index bs bm s.st) := by
  induction ms generalizing index bs bm s with
  | nil => exact ⟨rfl, rfl, Sticky.refl s⟩
  | cons m ms ih =>
    have ih' := ih (fun m' hm' => hc m' (List.mem_cons_of_mem _ hm'))
    have hcm := hc m List.mem_cons_self
    unfold rootLoopS rootLoopF
    simp only []
    by_cases hidx : index ≤ Gen.fullWindowMaxIndex
    · simp only [hidx, if_true]
      have h1 := hcm (scoreMin + 1) (-bs) 1 s
      cases hS : childS (o.push g m) (scoreMin + 1) (-bs) 1 s with
      | mk s1 x =>
        cases hF : childF (o.push g m) (scoreMin + 1) (-bs) 1 s.st with
        | mk t1 y =>
          rw [hS, hF] at h1
          obtain ⟨e1, e2, k1⟩ := h1
          simp only [] at e1 e2
          subst e1; subst e2
          cases x with
          | none => exact ⟨rfl, rfl, k1⟩
          | some v =>
            simp only []
            by_cases hs : -v > bs
            · simp only [hs, if_true]; exact Erase.mono k1 (ih' _ _ _ _)
            · simp only [hs, if_false]; exact Erase.mono k1 (ih' _ _ _ _)
    · simp only [hidx, if_false]
      have h1 := hcm (-bs - 1) (-bs) 1 s
      cases hS : childS (o.push g m) (-bs - 1) (-bs) 1 s with
      | mk s1 x =>
        cases hF : childF (o.push g m) (-bs - 1) (-bs) 1 s.st with
        | mk t1 y =>
          rw [hS, hF] at h1
          obtain ⟨e1, e2, k1⟩ := h1
          simp only [] at e1 e2
          subst e1; subst e2
          cases x with
          | none => exact ⟨rfl, rfl, k1⟩
          | some v =>
            simp only []
            by_cases hs : -v > bs
            · simp only [hs, if_true]
              have h2 := hcm (scoreMin + 1) (- -v) 1 s1
              cases hS2 : childS (o.push g m) (scoreMin + 1) (- -v) 1 s1 with
              | mk s2 x2 =>
                cases hF2 : childF (o.push g m) (scoreMin + 1) (- -v) 1 s1.st with
                | mk t2 y2 =>
                  rw [hS2, hF2] at h2
                  obtain ⟨e3, e4, k2⟩ := h2
                  simp only [] at e3 e4
                  subst e3; subst e4
                  cases x2 with
                  | none => exact ⟨rfl, rfl, k1.trans k2⟩
                  | some v2 => exact Erase.mono (k1.trans k2) (ih' _ _ _ _)
            · simp only [hs, if_false]; exact Erase.mono k1 (ih' _ _ _ _)

variable [DecidableEq M]

/-- **Erasure for the node**: whatever the state, the indices and the observer, the strict node
returns the state and the answer of the faithful node, and does not lower a flag. -/
theorem nodeS_erase (o : Ops G M) (runs : Nat → Bool) (obs : Nat → Int → Bool) (remaining : Nat)
    (g : G) (α β rd : Int) (s : SS M) :
    Erase s (nodeS o runs obs remaining g α β rd s) (nodeF o runs remaining g α β rd s.st) := by
  induction remaining using Nat.strongRecOn generalizing g α β rd s with
  | _ n ih =>
    rw [nodeS_eq, nodeF_eq]
    have hobs := observe_sticky obs n rd s
    rw [← observe_st obs n rd s]
    generalize observe obs n rd s = s' at hobs ⊢
    refine Erase.mono hobs ?_
    cases hr : runs s'.st.polls with
    | false => exact ⟨rfl, rfl, Sticky.withSt _ _⟩
    | true =>
      simp only [Bool.not_true, Bool.false_eq_true, if_false]
      cases hcut : ttCut (ttGet (pollSt s'.st) (o.hash g)) n α β with
      | some v => exact ⟨rfl, rfl, Sticky.withSt _ _⟩
      | none =>
        simp only []
        match n with
        | 0 => exact ⟨rfl, rfl, Sticky.withSt _ _⟩
        | 1 => exact ⟨rfl, rfl, Sticky.withSt _ _⟩
        | r + 2 =>
          simp only []
          by_cases he : (o.checked g).isEmpty = true
          · simp only [he, if_true]; exact ⟨rfl, rfl, Sticky.withSt _ _⟩
          · simp only [he]
            rw [nodeMoves_eq]
            have hk1 := readKiller_fst ({ s' with st := pollSt s'.st } : SS M) rd.toNat
            have hk2 := readKiller_st ({ s' with st := pollSt s'.st } : SS M) rd.toNat
            have hk3 := readKiller_sticky ({ s' with st := pollSt s'.st } : SS M) rd.toNat
            generalize readKiller ({ s' with st := pollSt s'.st } : SS M) rd.toNat = k at hk1 hk2 hk3 ⊢
            simp only [] at hk1 hk2
            rw [← hk1, ← hk2]
            have hl := nodeLoopS_erase o (nodeS o runs obs (r + 1)) (nodeF o runs (r + 1)) g (r + 2) rd β
              (nodeMovesK o g k.1 k.2.st)
              (fun m _ a b r' s2 => ih (r + 1) (by omega) _ _ _ _ _) 0 α scoreMin none k.2
            cases hS : nodeLoopS o (nodeS o runs obs (r + 1)) g (r + 2) rd β
                (nodeMovesK o g k.1 k.2.st) 0 α scoreMin none k.2 with
            | mk s1 x =>
              cases hF : nodeLoopF o (nodeF o runs (r + 1)) g (r + 2) rd β
                  (nodeMovesK o g k.1 k.2.st) 0 α scoreMin none k.2.st with
              | mk t1 y =>
                rw [hS, hF] at hl
                obtain ⟨e1, e2, k1⟩ := hl
                simp only [] at e1 e2
                subst e1; subst e2
                have hst : Sticky s' s1 := (Sticky.withSt s' (pollSt s'.st)).trans (hk3.trans k1)
                cases x with
                | none => exact ⟨rfl, rfl, hst⟩
                | some y =>
                  obtain ⟨a', bs', bm'⟩ := y
                  exact ⟨rfl, rfl, hst.trans (Sticky.withSt _ _)⟩

/-- **Erasure for the root search.** -/
theorem rootSearchS_erase (o : Ops G M) (runs : Nat → Bool) (obs : Nat → Int → Bool) (g : G)
    (depth : Nat) (s : SS M) :
    Erase s (rootSearchS o runs obs g depth s) (rootSearchF o runs g depth s.st) := by
  rw [rootSearchF_eq]
  unfold rootSearchS
  by_cases hl : (o.checked g).length = 1
  · simp only [hl, if_true]; exact ⟨rfl, rfl, Sticky.refl s⟩
  · simp only [hl, if_false]
    cases hh : rootHit (ttGet (rootSt s.st) (o.hash g)) depth with
    | some e => exact ⟨rfl, rfl, Sticky.withSt _ _⟩
    | none =>
      simp only []
      have hl := rootLoopS_erase o (nodeS o runs obs (depth - 1)) (nodeF o runs (depth - 1)) g
        (rootSorted o g (rootSt s.st))
        (fun m _ a b r' s2 => nodeS_erase o runs obs _ _ _ _ _ _) 0 (scoreMin + 1) none
        ({ s with st := rootSt s.st } : SS M)
      cases hS : rootLoopS o (nodeS o runs obs (depth - 1)) g (rootSorted o g (rootSt s.st)) 0
          (scoreMin + 1) none ({ s with st := rootSt s.st } : SS M) with
      | mk s1 x =>
        cases hF : rootLoopF o (nodeF o runs (depth - 1)) g (rootSorted o g (rootSt s.st)) 0
            (scoreMin + 1) none (rootSt s.st) with
        | mk t1 y =>
          rw [hS] at hl
          simp only [] at hl
          rw [hF] at hl
          obtain ⟨e1, e2, k1⟩ := hl
          simp only [] at e1 e2
          subst e1; subst e2
          have hst : Sticky s s1 := (Sticky.withSt s (rootSt s.st)).trans k1
          cases x with
          | none => exact ⟨rfl, rfl, hst⟩
          | some y =>
            obtain ⟨bs', bm'⟩ := y
            exact ⟨rfl, rfl, hst.trans (Sticky.withSt _ _)⟩

/-- the flags of the strict driver are at least those of the state it started from -/
structure StickyOut (s : SS M) (r : DriverOutS M) : Prop where
  k : s.oobK = true → r.oobK = true
  h : s.oobH = true → r.oobH = true
  c : s.offShape = true → r.offShape = true

omit [DecidableEq M] in
theorem stickyOut_mkOutS {s s' : SS M} (h : Sticky s s') (found : Option M) (infos : List (Info M))
    (stopped : Bool) : StickyOut s (mkOutS found infos s' stopped) := ⟨h.k, h.h, h.c⟩

omit [DecidableEq M] in
theorem StickyOut.mono {s s' : SS M} {r : DriverOutS M} (h : Sticky s s') (k : StickyOut s' r) :
    StickyOut s r := ⟨fun x => k.k (h.k x), fun x => k.h (h.h x), fun x => k.c (h.c x)⟩

/-- **Erasure for the iterative-deepening loop.** -/
theorem driverLoopS_erase (o : Ops G M) (runs : Nat → Bool) (obs : Nat → Nat → Int → Bool) (g : G)
    (limit fuel depth : Nat) (found : Option M) (infos : List (Info M)) (s : SS M) :
    (driverLoopS o runs obs g limit fuel depth found infos s).out =
        driverLoopF o runs g limit fuel depth found infos s.st ∧
      StickyOut s (driverLoopS o runs obs g limit fuel depth found infos s) := by
  induction fuel generalizing depth found infos s with
  | zero => exact ⟨rfl, stickyOut_mkOutS (Sticky.refl s) _ _ _⟩
  | succ f ih =>
    rw [driverLoopS_succ, driverLoopF_succ]
    have h1 := rootSearchS_erase o runs (obs depth) g depth s
    cases hS : rootSearchS o runs (obs depth) g depth s with
    | mk s1 x =>
      cases hF : rootSearchF o runs g depth s.st with
      | mk t1 y =>
        rw [hS, hF] at h1
        obtain ⟨e1, e2, k1⟩ := h1
        simp only [] at e1 e2
        subst e1; subst e2
        cases x with
        | none => exact ⟨rfl, stickyOut_mkOutS k1 _ _ _⟩
        | some y =>
          obtain ⟨bm, sc, only⟩ := y
          simp only []
          by_cases hx : exitCond limit depth only sc = true
          · simp only [hx, if_true]
            exact ⟨rfl, stickyOut_mkOutS k1 _ _ _⟩
          · simp only [hx]
            obtain ⟨i1, i2⟩ := ih (depth + 1) (bm.or found) (mkInfo o g depth sc s1.st :: infos) s1
            exact ⟨i1, StickyOut.mono k1 i2⟩

/-- **Erasure for the driver**: whatever the observer, the `DriverOut` of the strict driver is that
of the faithful driver. -/
theorem driverS_out (o : Ops G M) (runs : Nat → Bool) (obs : Nat → Nat → Int → Bool) (g : G)
    (tt : Table M) (off : Bool) (md : Option Nat) :
    (driverS o runs obs g tt off md).out = driverF o runs g tt off md := by
  rw [driverF_eq]
  exact (driverLoopS_erase o runs obs g _ _ _ _ _ _).1

end Chess.Search.Shape
