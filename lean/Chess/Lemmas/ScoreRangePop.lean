import Chess.Lemmas.ScoreRange

/-!
# Score range, part 3: take-back (`pop`)

`pop` puts the moved piece back on its start square *before* it clears the arrival square, so for
one half-step the piece stands on two squares and the material invariant is suspended.  The value
still fits `i16`: a duplicated non-king is worth at most 905 (`30565 + 905 = 31470`); a duplicated
king is worth at most 20040 but then the other king is on the board and worth at least 19950
(`30565 − 19950 + 20040 = 30655`).  The second case needs: the side that is not to move has its
king (`KingsInv`), which in turn needs that generated moves do not capture own men (`CapEnemy`,
from the correspondence with the rules `unchecked_subset_pseudo`).
-/
namespace Chess.Range

open Chess Chess.Game

/-! ## 1. Generated moves capture enemy men only -/

/-- the captured man of a move -/
def captured : Move → Option Piece
  | .normal _ _ _ cap => cap
  | .promotion _ _ _ _ cap => cap
  | _ => none

def CapEnemy (g : Game) (m : Move) : Prop := ∀ c, captured m = some c → c.owner ≠ g.player

theorem capEnemy_of_generated {g : Game} (hw : g.WF) {m : Move} (hm : m ∈ g.pseudoMoves) :
    CapEnemy g m := by
  have hp := unchecked_subset_pseudo hw hm
  have hf := (generated_fits hw hm).1
  intro c hc
  cases m with
  | normal pc s e cap =>
    obtain ⟨hs, he, -, h1, h2, -⟩ := hf
    simp only [captured] at hc
    subst hc
    unfold Spec.pseudo at hp
    simp only [Move.toSpec] at hp
    rw [← g.get_eq_at s hs, ← g.get_eq_at e he, h1, h2] at hp
    simp only [Bool.and_eq_true, decide_eq_true_eq, Bool.not_eq_true', decide_eq_false_iff_not] at hp
    exact hp.2.2.1
  | promotion o t s e cap =>
    obtain ⟨hs, he, -, h1, h2⟩ := hf
    simp only [captured] at hc
    subst hc
    unfold Spec.pseudo at hp
    simp only [Move.toSpec] at hp
    rw [← g.get_eq_at s hs, ← g.get_eq_at e he, h1, h2] at hp
    simp only [Bool.and_eq_true, decide_eq_true_eq, Bool.not_eq_true', decide_eq_false_iff_not] at hp
    exact hp.2.2.1
  | enPassant o sc ec => simp [captured] at hc
  | castlingLong o => simp [captured] at hc
  | castlingShort o => simp [captured] at hc

/-! ## 2. The side that is not to move has its king -/

/-- each side has exactly one king, except that the king of the side to move may have been captured
on an unchecked search line — and then that side is not given any move -/
def KingsInv (g : Game) : Prop :=
  ∀ pl, countPieces g.board pl .king = 1
    ∨ (countPieces g.board pl .king = 0 ∧ g.kingExists pl = false ∧ pl = g.player)

theorem ofFen_kingsInv {s : List Char} {g : Game} (h : Game.ofFen s = .ok g) : KingsInv g := by
  obtain ⟨hw, hb, -⟩ := Bounds.ofFen_material h
  intro pl
  cases pl
  · exact .inl (countKing_one hw)
  · exact .inl (countKing_one hb)

theorem kingsInv_other {g : Game} (h : KingsInv g) : countPieces g.board g.player.other .king = 1 := by
  rcases h g.player.other with h | ⟨-, -, h⟩
  · exact h
  · exact absurd h (by simp)

theorem kingsInv_mover {g : Game} (h : KingsInv g) (hke : g.kingExists g.player = true) :
    countPieces g.board g.player .king = 1 := by
  rcases h g.player with h | ⟨-, h, -⟩
  · exact h
  · rw [hke] at h; cases h

/-- how the number of kings changes under `push`: only by a captured king -/
theorem king_count_push {g : Game} {m : Move} (hf : g.Fits m) (hp : PromoOk m) (pl : Player) :
    countPieces (g.push m).board pl .king + ind pl .king (captured m) = countPieces g.board pl .king := by
  rw [push_board_eq]
  have bal := count_bsetMany g.board (Bounds.writes m) (Bounds.writes_valid hf)
    (Bounds.writes_distinct hf) pl .king
  cases m with
  | normal pc s e cap =>
    obtain ⟨-, -, -, h1, h2, -⟩ := hf
    rw [get_eq_bget] at h1 h2
    simp only [Bounds.writes, sumOld, sumNew, List.map_cons, List.map_nil, List.sum_cons,
      List.sum_nil, h1, h2, ind_none] at bal
    simp only [captured, Bounds.writes]
    omega
  | promotion o t s e cap =>
    obtain ⟨-, -, -, h1, h2⟩ := hf
    rw [get_eq_bget] at h1 h2
    simp only [Bounds.writes, sumOld, sumNew, List.map_cons, List.map_nil, List.sum_cons,
      List.sum_nil, h1, h2, ind_none, ind_some] at bal
    have e1 : ¬ (PieceType.pawn = PieceType.king ∧ o = pl) := fun h => by cases h.1
    have e2 : ¬ (t = PieceType.king ∧ o = pl) := fun h => hp h.1
    rw [if_neg e1, if_neg e2] at bal
    simp only [captured, Bounds.writes]
    omega
  | enPassant o sc ec =>
    obtain ⟨-, -, -, -, -, h1, h2, h3⟩ := hf
    rw [get_eq_bget] at h1 h2 h3
    simp only [Bounds.writes, sumOld, sumNew, List.map_cons, List.map_nil, List.sum_cons,
      List.sum_nil, h1, h2, h3, ind_none, ind_some] at bal
    have e1 : ∀ o', ¬ (PieceType.pawn = PieceType.king ∧ o' = pl) := fun _ h => by cases h.1
    simp only [e1, if_false] at bal
    simp only [captured, Bounds.writes, ind_none]
    omega
  | castlingLong o =>
    obtain ⟨-, -, h4, h0, h3, h2⟩ := hf
    rw [get_eq_bget] at h4 h0 h3 h2
    simp only [Bounds.writes, sumOld, sumNew, List.map_cons, List.map_nil, List.sum_cons,
      List.sum_nil, h4, h0, h3, h2, ind_none] at bal
    simp only [captured, Bounds.writes, ind_none]
    omega
  | castlingShort o =>
    obtain ⟨-, -, h4, h7, h5, h6⟩ := hf
    rw [get_eq_bget] at h4 h7 h5 h6
    simp only [Bounds.writes, sumOld, sumNew, List.map_cons, List.map_nil, List.sum_cons,
      List.sum_nil, h4, h7, h5, h6, ind_none] at bal
    simp only [captured, Bounds.writes, ind_none]
    omega

/-- after the capture of a king the cached square of that king holds the capturing man, which is
not a king -/
theorem kingExists_after_capture {g : Game} {m : Move} (hk : g.KingInv) (hf : g.Fits m)
    (hx : g.MoverOk m) (pl : Player) (hpl : pl ≠ g.player) (hc : captured m = some ⟨.king, pl⟩) :
    (g.push m).kingExists pl = false := by
  cases m with
  | normal pc s e cap =>
    obtain ⟨hs, he, -, h1, h2, -⟩ := hf
    simp only [captured] at hc
    subst hc
    have hkp : g.kingPos pl = e := hk.unique e pl he h2
    unfold Game.kingExists
    rw [push_kingPos_normal, if_neg (fun h => hpl h.2), hkp, push_get_normal g pc s e _ hs he e he,
      if_pos rfl]
    simp only [decide_eq_false_iff_not]
    intro hpk
    exact hx.2 hpk ⟨.king, pl⟩ rfl rfl
  | promotion o t s e cap =>
    obtain ⟨hs, he, -, h1, h2⟩ := hf
    simp only [captured] at hc
    subst hc
    have hkp : g.kingPos pl = e := hk.unique e pl he h2
    unfold Game.kingExists
    rw [push_kingPos_promotion, hkp, push_get_promotion g o t s e _ hs he e he, if_pos rfl]
    simp only [decide_eq_false_iff_not]
    obtain ⟨-, h | h | h | h⟩ := hx <;> simp [h]
  | enPassant o sc ec => simp [captured] at hc
  | castlingLong o => simp [captured] at hc
  | castlingShort o => simp [captured] at hc

/-- **`push` of a generated move keeps `KingsInv`** -/
theorem push_kingsInv' {g : Game} {m : Move} (hki : g.KingInv) (hf : g.Fits m) (hx : g.MoverOk m)
    (hce : CapEnemy g m) (hke : g.kingExists g.player = true) (hk : KingsInv g) :
    KingsInv (g.push m) := by
  have c1 := kingsInv_mover hk hke
  have c2 := kingsInv_other hk
  intro pl
  have bal := king_count_push hf (promoOk_of_moverOk hx) pl
  by_cases hcap : captured m = some ⟨.king, pl⟩
  · have hpl : pl ≠ g.player := hce _ hcap
    have hpl' : pl = g.player.other := by
      cases pl <;> cases hg : g.player <;> simp_all [Player.other]
    right
    refine ⟨?_, kingExists_after_capture hki hf hx pl hpl hcap, by rw [Game.push_player]; exact hpl'⟩
    rw [hcap] at bal
    have : ind pl .king (some ⟨.king, pl⟩) = 1 := by simp [ind]
    rw [hpl'] at bal this ⊢
    omega
  · left
    have : ind pl .king (captured m) = 0 := by
      unfold ind; rw [if_neg hcap]
    have hc : countPieces g.board pl .king = 1 := by
      by_cases e : pl = g.player
      · rw [e]; exact c1
      · have : pl = g.player.other := by
          cases pl <;> cases hg : g.player <;> simp_all [Player.other]
        rw [this]; exact c2
    omega

theorem push_kingsInv {g : Game} {m : Move} (hw : g.WF) (hm : m ∈ g.pseudoMoves) (hk : KingsInv g) :
    KingsInv (g.push m) :=
  push_kingsInv' hw.kings (generated_fits hw hm).1 (generated_fits hw hm).2
    (capEnemy_of_generated hw hm) (mem_pseudoMoves.1 hm).1 hk

theorem updatePhase_kingsInv {g : Game} (hk : KingsInv g) : KingsInv g.updatePhase := by
  obtain ⟨f1, f2, -, f4, f5⟩ := updatePhase_fields g
  intro pl
  rw [f1, kingExists_congr f1 f4 f5, f2]
  exact hk pl

theorem reach_kingsInv {g : Game} (h : Reach g) : KingsInv g := by
  induction h with
  | imported s g hok => exact ofFen_kingsInv hok
  | played g m hr hm ih =>
    have hw := reach_wf hr
    have hps := Game.getMoves_subset hw true hm
    obtain ⟨hf, hx⟩ := generated_fits hw hps
    have hce := capEnemy_of_generated hw hps
    have hke := (mem_pseudoMoves.1 hps).1
    let g1 : Game := { g with moveStack := m :: g.moveStack }
    obtain ⟨f1, f2, f3, f4, f5⟩ := updatePhase_fields g1
    have hw1 : g1.updatePhase.WF := Game.updatePhase_wf (Game.recordMove_wf m hw)
    have hk1 : KingsInv g1.updatePhase := updatePhase_kingsInv (g := g1) ih
    have hx1 : g1.updatePhase.MoverOk m := (moverOk_congr (g := g) f3 f2 m).2 hx
    have hce1 : CapEnemy g1.updatePhase m := by
      intro c hc; rw [f2]; exact hce c hc
    have hke1 : g1.updatePhase.kingExists g1.updatePhase.player = true := by
      rw [kingExists_congr (g := g) f1 f4 f5, f2]; exact hke
    exact push_kingsInv' hw1.kings (Bounds.fits_record hf) hx1 hce1 hke1 hk1
  | searched g m b hr hm ih =>
    have hw := reach_wf hr
    exact push_kingsInv hw (Game.getMoves_subset hw b hm) ih

/-! ## 3. Games with a consistent cache -/

/-- the cache part of `WF`: every cached contribution is the table entry of the square's content
under the phase in force, and the score is their sum -/
structure Cache (g : Game) : Prop where
  inv : g.CacheInv
  res : g.resScore = 0

theorem cache_of_wf {g : Game} (hw : g.WF) : Cache g := ⟨hw.cache, hw.resScore⟩

theorem Cache.setPosition {g : Game} (h : Cache g) {p : Pos} (hp : p.Valid) (x : Option Piece) :
    Cache (g.setPosition p x) :=
  ⟨setPosition_cacheInv g p x hp h.inv, by rw [setPosition_resScore g p x hp]; exact h.res⟩

theorem Cache.mid {g : Game} (h : Cache g) (hm : MaterialOk g.board) : Mid g where
  sum := by have := h.res; unfold Game.resScore at this; omega
  bdd := by
    intro i hi
    rw [h.inv.scores i hi]
    exact placeScore_bounded _ _ _
  mat := hm

theorem Cache.kingLB {g : Game} (h : Cache g) : KingLB g.board g.pastScores := by
  intro i hi pl hb
  rw [h.inv.scores i hi, hb]
  exact king_score_lb pl (Pos.ofIdx_valid hi) g.endgame

/-- with the other king on the board the score seen from `pl` is at most `B − 19950` -/
theorem Cache.range_king {g : Game} (h : Cache g) (hm : MaterialOk g.board) (pl : Player)
    (h1 : countPieces g.board pl.other .king = 1) : g.score * pl.sign ≤ B - kingMin := by
  have := sum_range_king (h.mid hm).bdd h.kingLB hm pl h1
  rw [(h.mid hm).sum]; exact this

/-! ## 4. Two writes, the first of which duplicates a man -/

/-- The pattern of `pop` for a normal move and for a promotion: write `x1` on the (empty) start
square, then replace the man `pc'` on the arrival square by `x2`.  The boards after the first
half-step, after the third and after the fourth have possible material; the one after the second
may have `pc'` twice. -/
theorem two_writes_fit {G : Game} (hc : Cache G) {s e : Pos} (hs : s.Valid) (he : e.Valid)
    (hne : s ≠ e) (x1 x2 : Option Piece) (pc' : Piece) (hge : G.get e = some pc')
    (m1 : MaterialOk G.board)
    (m3 : MaterialOk (bsetMany G.board [(s, x1), (e, none)]))
    (m4 : MaterialOk (bsetMany G.board [(s, x1), (e, x2)]))
    (hk : pc'.pieceType = .king →
      countPieces (bsetMany G.board [(s, x1), (e, none)]) pc'.owner.other .king = 1) :
    ∀ v ∈ trace G [(s, x1), (e, x2)], -32768 ≤ v ∧ v ≤ 32767 := by
  have c1 : Cache (G.setPosition s none) := hc.setPosition hs none
  have c2 : Cache (G.setPosition s x1) := hc.setPosition hs x1
  have c3 : Cache ((G.setPosition s x1).setPosition e none) := c2.setPosition he none
  have c4 : Cache ((G.setPosition s x1).setPosition e x2) := c2.setPosition he x2
  have b3 : ((G.setPosition s x1).setPosition e none).board = bsetMany G.board [(s, x1), (e, none)] := by
    simp only [bsetMany, setPosition_board_eq]
  have b4 : ((G.setPosition s x1).setPosition e x2).board = bsetMany G.board [(s, x1), (e, x2)] := by
    simp only [bsetMany, setPosition_board_eq]
  have r1 := (c1.mid (by rw [setPosition_board_eq]; exact materialOk_bset_none m1 s)).range
  have r3 := (c3.mid (by rw [b3]; exact m3)).range
  have r4 := (c4.mid (by rw [b4]; exact m4)).range
  -- the second value is the third plus the cached contribution of `pc'` on `e`
  have hy : (G.setPosition s x1).pastScores[e.idx]'(Pos.idx_lt he)
      = pc'.score e (G.setPosition s x1).endgame := by
    rw [c2.inv.scores e.idx (Pos.idx_lt he), Pos.ofIdx_idx he, ← Bounds.get_eq_getElem _ he,
      get_setPosition_ne G s x1 hs e he (fun h => hne h.symm), hge]
    rfl
  have h23 : ((G.setPosition s x1).setPosition e none).score
      = (G.setPosition s x1).score - pc'.score e (G.setPosition s x1).endgame := by
    rw [setPosition_score _ e none he, hy]
    simp [placeScore]
  have hb := score_bounded pc' e (G.setPosition s x1).endgame
  intro v hv
  simp only [trace, setSteps_eq _ _ _ (Pos.idx_lt hs), setSteps_eq _ _ _ (Pos.idx_lt he),
    List.append_nil, List.cons_append, List.nil_append, List.mem_cons, List.not_mem_nil,
    or_false] at hv
  unfold B at r1 r3 r4
  rcases hv with rfl | rfl | rfl | rfl
  · omega
  · generalize pc'.score e (G.setPosition s x1).endgame = y at h23 hb
    by_cases hking : pc'.pieceType = .king
    · have hk1 := hk hking
      rw [← b3] at hk1
      have r3k := c3.range_king (by rw [b3]; exact m3) pc'.owner hk1
      obtain ⟨t, pl⟩ := pc'
      simp only at hking
      subst hking
      simp only [Bounded, vmax] at hb
      unfold B kingMin at r3k
      cases pl <;> simp only [Player.sign] at hb r3k <;> omega
    · have hv := vmax_le_of_ne_king hking
      obtain ⟨t, pl⟩ := pc'
      simp only [Bounded] at hb
      simp only at hv
      cases pl <;> simp only [Player.sign] at hb <;> omega
  · omega
  · omega

/-! ## 5. `pop` -/

/-- the values `self.score` takes during `pop(m)` (`wrapPop` is what `pop` does before it touches
the board: side, state stack, keys) -/
def popTrace (g' : Game) (m : Move) : List Int := trace (wrapPop g') (Bounds.unwrites m)

theorem unapplyMove_score (g : Game) (m : Move) :
    (unapplyMove g m).score = (g.setMany (Bounds.unwrites m)).score := by
  cases m with
  | normal pc s e cap =>
    simp only [unapplyMove, Bounds.unwrites, setMany]
    split <;> simp
  | promotion o t s e cap => rfl
  | enPassant o sc ec => cases o <;> rfl
  | castlingLong o => simp [unapplyMove, Bounds.unwrites, setMany]
  | castlingShort o => simp [unapplyMove, Bounds.unwrites, setMany]

/-- the trace of `pop` ends with the score of the game `pop` leaves -/
theorem popTrace_getLast (g' : Game) (m : Move) :
    ((popTrace g' m).getLast?).getD g'.score = (g'.pop m).score := by
  rw [pop_eq_wrap, unapplyMove_score]
  exact trace_getLast (wrapPop g') _

theorem materialOk_of_le2 {b0 : Board} (h : MaterialOk b0) (l1 l2 : List (Pos × Option Piece))
    (hv1 : ∀ e ∈ l1, e.1.Valid) (hd1 : l1.Pairwise (fun a b => a.1 ≠ b.1))
    (hv2 : ∀ e ∈ l2, e.1.Valid) (hd2 : l2.Pairwise (fun a b => a.1 ≠ b.1))
    (hle : ∀ pl t, sumNew pl t l1 + sumNew pl t l2
      ≤ sumOld pl t b0 l1 + sumOld pl t (bsetMany b0 l1) l2) :
    MaterialOk (bsetMany (bsetMany b0 l1) l2) := by
  have hc : ∀ pl t, countPieces (bsetMany (bsetMany b0 l1) l2) pl t ≤ countPieces b0 pl t := by
    intro pl t
    have := count_bsetMany b0 l1 hv1 hd1 pl t
    have := count_bsetMany (bsetMany b0 l1) l2 hv2 hd2 pl t
    have := hle pl t
    omega
  exact ⟨sideOkB_mono h.1 (hc .white), sideOkB_mono h.2 (hc .black)⟩

theorem cache_wrapPop {g' : Game} (h : Cache g') : Cache (wrapPop g') :=
  ⟨cacheInv_congr (g := g') rfl rfl rfl rfl h.inv, h.res⟩

/-- the boards between the half-steps of a take-back whose every prefix keeps, kind by kind, no
more on the board than the game before the move had -/
theorem pop_inits_of_le2 {g : Game} {m : Move} (hf : g.Fits m) (hmat : MaterialInv g)
    (hd : (Bounds.unwrites m).Pairwise (fun a b => a.1 ≠ b.1))
    (hle : ∀ l' ∈ inits (Bounds.unwrites m), ∀ pl t,
      sumNew pl t (Bounds.writes m) + sumNew pl t l'
        ≤ sumOld pl t g.board (Bounds.writes m) + sumOld pl t (g.push m).board l') :
    ∀ l' ∈ inits (Bounds.unwrites m), MaterialOk (bsetMany (g.push m).board l') := by
  intro l' hl'
  have hsub := inits_sublist hl'
  have h := materialOk_of_le2 hmat (Bounds.writes m) l' (Bounds.writes_valid hf)
    (Bounds.writes_distinct hf) (fun e he => Bounds.unwrites_valid hf e (hsub.subset he))
    (hd.sublist hsub) (by rw [← push_board_eq]; exact hle l' hl')
  rw [← push_board_eq] at h
  exact h

/-- **every value `self.score` takes during the take-back of a generated move fits `i16`** (the
general form: from the invariants) -/
theorem pop_fits_of {g : Game} {m : Move} (hw' : (g.push m).WF) (hf : g.Fits m)
    (hx : g.MoverOk m) (hmat : MaterialInv g) (hkings : KingsInv g) :
    ∀ v ∈ popTrace (g.push m) m, -32768 ≤ v ∧ v ≤ 32767 := by
  have hG : Cache (wrapPop (g.push m)) := cache_wrapPop (cache_of_wf hw')
  have hGb : (wrapPop (g.push m)).board = (g.push m).board := rfl
  have m1 : MaterialOk (g.push m).board := push_material hf (promoOk_of_moverOk hx) hmat
  have hget : ∀ q, bget (g.push m).board q = (g.push m).get q := fun _ => rfl
  cases m with
  | normal pc s e cap =>
    have hf0 := hf
    obtain ⟨hs, he, hne, h1, h2, -⟩ := hf
    have hf : g.Fits (.normal pc s e cap) := hf0
    rw [get_eq_bget] at h1 h2
    have gs : bget (g.push (.normal pc s e cap)).board s = none := by
      rw [hget, push_get_normal g pc s e cap hs he s hs]; simp [hne]
    have ge : bget (g.push (.normal pc s e cap)).board e = some pc := by
      rw [hget, push_get_normal g pc s e cap hs he e he]; simp
    have lv : ∀ x, ∀ e' ∈ [(s, some pc), (e, x)], e'.1.Valid := by
      intro x e' he'; simp at he'; rcases he' with rfl | rfl <;> assumption
    have ld : ∀ x, [(s, some pc), (e, x)].Pairwise (fun a b : Pos × Option Piece => a.1 ≠ b.1) := by
      intro x; simpa using hne
    have mm : ∀ x, (∀ pl t, ind pl t x ≤ ind pl t cap) →
        MaterialOk (bsetMany (g.push (.normal pc s e cap)).board [(s, some pc), (e, x)]) := by
      intro x hx'
      have h := materialOk_of_le2 hmat (Bounds.writes (.normal pc s e cap)) [(s, some pc), (e, x)]
        (Bounds.writes_valid hf) (Bounds.writes_distinct hf) (lv x) (ld x)
        (by
          intro pl t
          rw [← push_board_eq]
          have := hx' pl t
          simp only [Bounds.writes, sumOld, sumNew, List.map_cons, List.map_nil, List.sum_cons,
            List.sum_nil, h1, h2, gs, ge, ind_none]
          omega)
      rw [← push_board_eq] at h
      exact h
    apply two_writes_fit hG hs he hne (some pc) cap pc ge m1
    · exact mm none (fun pl t => by simp)
    · exact mm cap (fun pl t => Nat.le_refl _)
    · intro hking
      have bal := count_bsetMany (g.push (.normal pc s e cap)).board [(s, some pc), (e, none)]
        (lv none) (ld none) pc.owner.other .king
      simp only [sumOld, sumNew, List.map_cons, List.map_nil, List.sum_cons, List.sum_nil, gs, ge,
        ind_none] at bal
      have kc := king_count_push hf trivial pc.owner.other
      have hcap : ind pc.owner.other .king (captured (.normal pc s e cap)) = 0 := by
        simp only [captured]
        cases hc : cap with
        | none => rfl
        | some c =>
          have := hx.2 hking c hc
          obtain ⟨ct, co⟩ := c
          rw [ind_some]
          simp only at this
          rw [if_neg (fun h => this h.1)]
      have := kingsInv_other hkings
      rw [hx.1] at bal kc hcap ⊢
      rw [hGb]
      omega
  | promotion o t s e cap =>
    have hf0 := hf
    obtain ⟨hs, he, hne, h1, h2⟩ := hf
    have hf : g.Fits (.promotion o t s e cap) := hf0
    rw [get_eq_bget] at h1 h2
    have gs : bget (g.push (.promotion o t s e cap)).board s = none := by
      rw [hget, push_get_promotion g o t s e cap hs he s hs]; simp [hne]
    have ge : bget (g.push (.promotion o t s e cap)).board e = some ⟨t, o⟩ := by
      rw [hget, push_get_promotion g o t s e cap hs he e he]; simp
    have lv : ∀ x, ∀ e' ∈ [(s, some (⟨.pawn, o⟩ : Piece)), (e, x)], e'.1.Valid := by
      intro x e' he'; simp at he'; rcases he' with rfl | rfl <;> assumption
    have ld : ∀ x, [(s, some (⟨.pawn, o⟩ : Piece)), (e, x)].Pairwise
        (fun a b : Pos × Option Piece => a.1 ≠ b.1) := by
      intro x; simpa using hne
    have mm : ∀ x, (∀ pl t, ind pl t x ≤ ind pl t cap) →
        MaterialOk (bsetMany (g.push (.promotion o t s e cap)).board [(s, some ⟨.pawn, o⟩), (e, x)]) := by
      intro x hx'
      have h := materialOk_of_le2 hmat (Bounds.writes (.promotion o t s e cap))
        [(s, some ⟨.pawn, o⟩), (e, x)]
        (Bounds.writes_valid hf) (Bounds.writes_distinct hf) (lv x) (ld x)
        (by
          intro pl t'
          rw [← push_board_eq]
          have := hx' pl t'
          simp only [Bounds.writes, sumOld, sumNew, List.map_cons, List.map_nil, List.sum_cons,
            List.sum_nil, h1, h2, gs, ge, ind_none]
          omega)
      rw [← push_board_eq] at h
      exact h
    apply two_writes_fit hG hs he hne (some ⟨.pawn, o⟩) cap ⟨t, o⟩ ge m1
    · exact mm none (fun pl t => by simp)
    · exact mm cap (fun pl t => Nat.le_refl _)
    · intro hking
      exact absurd hking (promoOk_of_moverOk hx)
  | enPassant o sc ec =>
    obtain ⟨q1, q2, q3, q4, hne, h1, h2, h3⟩ := hf
    have hf : g.Fits (.enPassant o sc ec) := ⟨q1, q2, q3, q4, hne, h1, h2, h3⟩
    rw [get_eq_bget] at h1 h2 h3
    obtain ⟨v1, v2, v3⟩ := epSquares_valid o sc ec q1 q2 q3 q4
    obtain ⟨n1, n2, n3⟩ := epSquares_ne o sc ec hne
    have gn : bget (g.push (.enPassant o sc ec)).board (epSquares o sc ec).2.1 = some ⟨.pawn, o⟩ := by
      rw [hget, push_get_enPassant g o sc ec q1 q2 q3 q4 _ v2]; simp
    have go : bget (g.push (.enPassant o sc ec)).board (epSquares o sc ec).1 = none := by
      rw [hget, push_get_enPassant g o sc ec q1 q2 q3 q4 _ v1]; simp [n1]
    have gt : bget (g.push (.enPassant o sc ec)).board (epSquares o sc ec).2.2 = none := by
      rw [hget, push_get_enPassant g o sc ec q1 q2 q3 q4 _ v3]; simp [n2.symm, n3.symm]
    have hd : (Bounds.unwrites (.enPassant o sc ec)).Pairwise (fun a b => a.1 ≠ b.1) := by
      simp [Bounds.unwrites, n1.symm, n2.symm, n3]
    have hin := pop_inits_of_le2 hf hmat hd (by
      intro l' hl' pl t
      simp only [Bounds.unwrites, inits, List.map_cons, List.map_nil, List.mem_cons,
        List.not_mem_nil, or_false] at hl'
      rcases hl' with rfl | rfl | rfl | rfl <;>
        simp only [Bounds.writes, sumOld, sumNew, List.map_cons, List.map_nil, List.sum_cons,
          List.sum_nil, h1, h2, h3, gn, go, gt, ind_none] <;> omega)
    have hmid : Mid (wrapPop (g.push (.enPassant o sc ec))) := hG.mid m1
    intro v hv
    exact fits_of_range ((trace_range hmid _ (midBoards_of_inits _ _ hin)).1 v hv)
  | castlingLong o =>
    obtain ⟨a1, a2, h4, h0, h3, h2⟩ := hf
    have hf : g.Fits (.castlingLong o) := ⟨a1, a2, h4, h0, h3, h2⟩
    rw [get_eq_bget] at h4 h0 h3 h2
    have v := fun c h0 h8 => homeRow_valid o c h0 h8
    have g3 : bget (g.push (.castlingLong o)).board ⟨homeRow o, 3⟩ = some ⟨.rook, o⟩ := by
      rw [hget, push_get_castlingLong g o _ (v 3 (by omega) (by omega))]; simp
    have g2 : bget (g.push (.castlingLong o)).board ⟨homeRow o, 2⟩ = some ⟨.king, o⟩ := by
      rw [hget, push_get_castlingLong g o _ (v 2 (by omega) (by omega))]; simp
    have g0 : bget (g.push (.castlingLong o)).board ⟨homeRow o, 0⟩ = none := by
      rw [hget, push_get_castlingLong g o _ (v 0 (by omega) (by omega))]; simp
    have g4 : bget (g.push (.castlingLong o)).board ⟨homeRow o, 4⟩ = none := by
      rw [hget, push_get_castlingLong g o _ (v 4 (by omega) (by omega))]; simp
    have hd : (Bounds.unwrites (.castlingLong o)).Pairwise (fun a b => a.1 ≠ b.1) := by
      simp [Bounds.unwrites]
    have hin := pop_inits_of_le2 hf hmat hd (by
      intro l' hl' pl t
      simp only [Bounds.unwrites, inits, List.map_cons, List.map_nil, List.mem_cons,
        List.not_mem_nil, or_false] at hl'
      rcases hl' with rfl | rfl | rfl | rfl | rfl <;>
        simp only [Bounds.writes, sumOld, sumNew, List.map_cons, List.map_nil, List.sum_cons,
          List.sum_nil, h4, h0, h3, h2, g3, g2, g0, g4, ind_none] <;> omega)
    have hmid : Mid (wrapPop (g.push (.castlingLong o))) := hG.mid m1
    intro v hv
    exact fits_of_range ((trace_range hmid _ (midBoards_of_inits _ _ hin)).1 v hv)
  | castlingShort o =>
    obtain ⟨a1, a2, h4, h7, h5, h6⟩ := hf
    have hf : g.Fits (.castlingShort o) := ⟨a1, a2, h4, h7, h5, h6⟩
    rw [get_eq_bget] at h4 h7 h5 h6
    have v := fun c h0 h8 => homeRow_valid o c h0 h8
    have g5 : bget (g.push (.castlingShort o)).board ⟨homeRow o, 5⟩ = some ⟨.rook, o⟩ := by
      rw [hget, push_get_castlingShort g o _ (v 5 (by omega) (by omega))]; simp
    have g6 : bget (g.push (.castlingShort o)).board ⟨homeRow o, 6⟩ = some ⟨.king, o⟩ := by
      rw [hget, push_get_castlingShort g o _ (v 6 (by omega) (by omega))]; simp
    have g7 : bget (g.push (.castlingShort o)).board ⟨homeRow o, 7⟩ = none := by
      rw [hget, push_get_castlingShort g o _ (v 7 (by omega) (by omega))]; simp
    have g4 : bget (g.push (.castlingShort o)).board ⟨homeRow o, 4⟩ = none := by
      rw [hget, push_get_castlingShort g o _ (v 4 (by omega) (by omega))]; simp
    have hd : (Bounds.unwrites (.castlingShort o)).Pairwise (fun a b => a.1 ≠ b.1) := by
      simp [Bounds.unwrites]
    have hin := pop_inits_of_le2 hf hmat hd (by
      intro l' hl' pl t
      simp only [Bounds.unwrites, inits, List.map_cons, List.map_nil, List.mem_cons,
        List.not_mem_nil, or_false] at hl'
      rcases hl' with rfl | rfl | rfl | rfl | rfl <;>
        simp only [Bounds.writes, sumOld, sumNew, List.map_cons, List.map_nil, List.sum_cons,
          List.sum_nil, h4, h7, h5, h6, g5, g6, g7, g4, ind_none] <;> omega)
    have hmid : Mid (wrapPop (g.push (.castlingShort o))) := hG.mid m1
    intro v hv
    exact fits_of_range ((trace_range hmid _ (midBoards_of_inits _ _ hin)).1 v hv)

/-- **every value `self.score` takes during the take-back of a generated move (checked or not)
that was made on a reachable game fits `i16`** — the search's `pop`, and the `pop` of the
legality filter inside `get_moves` -/
theorem pop_intermediate_fits {g : Game} {m : Move} {b : Bool} (h : Reach g)
    (hm : m ∈ (g.getMoves b).1) : ∀ v ∈ popTrace (g.push m) m, -32768 ≤ v ∧ v ≤ 32767 := by
  have hw := reach_wf h
  have hf := Game.getMoves_fits hw b hm
  exact pop_fits_of (reach_wf (Reach.searched g m b h hm)) hf.1 hf.2 (reach_material h)
    (reach_kingsInv h)

end Chess.Range

#print axioms Chess.Range.reach_kingsInv
#print axioms Chess.Range.pop_intermediate_fits
#print axioms Chess.Range.popTrace_getLast
