import Chess.Lemmas.Mate2Aux5

/-!
# Mate in two: the driver (iterations 1 to 5 from the fresh table; soundness at every depth)

See `Chess/Lemmas/Mate2.lean` for the overview.
-/
namespace Chess.Search.Mate2
open Chess.Search Chess.Search.Mate

variable {G M : Type} [DecidableEq M]

theorem exitCond_of_win (limit depth : Nat) (only : Bool) {sc : Int} (h : evalBound < sc) :
    exitCond limit depth only sc = true := by
  unfold exitCond
  simp only [Bool.or_eq_true, decide_eq_true_eq]
  exact Or.inl (Or.inr h)

theorem exitCond_cases {limit depth : Nat} {sc : Int} (h : exitCond limit depth false sc = true)
    (hlo : -evalBound ≤ sc) : depth = limit ∨ evalBound < sc := by
  rcases exitCond_true h with k | k | k
  · exact Or.inl k
  · cases k
  · unfold mateRange at k
    rcases k with k | k
    · exact Or.inr k
    · simp only [evalBound, scoreMax, scoreMin, Gen.exitHi, Gen.exitLo] at *
      omega

theorem exitCond_neg {limit depth : Nat} {sc : Int} (h : ¬ exitCond limit depth false sc = true) :
    depth ≠ limit ∧ sc ≤ evalBound := by
  obtain ⟨k1, _, k3⟩ := exitCond_false h
  refine ⟨k1, ?_⟩
  unfold mateRange at k3
  simp only [evalBound] at *
  omega

omit [DecidableEq M] in
/-- the only legal move of a position with a forced mate in two keeps the mate -/
theorem only_move {o : Ops G M} {g : G} {m1 : M} (h2 : ForcedMate2 o g m1)
    (hl : (o.checked g).length = 1) : (o.checked g).head? = some m1 := by
  cases h : o.checked g with
  | nil => rw [h] at hl; cases hl
  | cons a l =>
    cases l with
    | nil =>
      have := h2.1
      rw [h] at this
      rw [List.mem_singleton.1 this]
      rfl
    | cons b l => rw [h] at hl; simp at hl

/-- the iterations `remc + 1, …, 5` of the driver, for any notion `S` of "won"/"lost" -/
theorem driverLoop_mate2 (o : Ops G M) (hb : Bounded o) (hn : Narrow o) (S : Sem o) (g : G)
    (hNr : ∀ d, S.Nx d d g) (m1 : M) (h2 : ForcedMate2 o g m1) (hk : m1 ∈ rootMoves o g)
    (hno1 : ¬ MateIn1 o g) (runs : Nat → Bool) (hr : ∀ i, runs i = true) (limit : Nat)
    (hlim : 5 ≤ limit) :
    ∀ (k remc : Nat), remc + 1 + k = 5 →
      ∀ (fuel : Nat) (found : Option M) (infos : List (Info M)) (st : St M), k + 1 ≤ fuel →
        TInv o S True remc st.tt → (∀ i ∈ infos, i.depth ≤ 5) →
        ∃ m r, (driverLoop o runs g limit fuel (remc + 1) found infos st).found = some m ∧
          m ∈ o.checked g ∧ r ≤ 4 ∧ S.L r (o.push g m) ∧
          (driverLoop o runs g limit fuel (remc + 1) found infos st).stopped = false ∧
          ∀ i ∈ (driverLoop o runs g limit fuel (remc + 1) found infos st).infos, i.depth ≤ 5 := by
  intro k
  induction k with
  | zero =>
    intro remc hd fuel found infos st hf hQ hi
    obtain ⟨f, rfl⟩ : ∃ f, fuel = f + 1 := ⟨fuel - 1, by omega⟩
    have hd5 : remc = 4 := by omega
    rw [driverLoop_succ]
    have hinfo : ∀ (sc : Int) (st' : St M),
        ∀ i ∈ (mkInfo o g (remc + 1) sc st' :: infos).reverse, i.depth ≤ 5 := by
      intro sc st' i hi'
      rcases List.mem_cons.1 (List.mem_reverse.1 hi') with rfl | h
      · simp only [mkInfo]; omega
      · exact hi i h
    by_cases hl : (o.checked g).length = 1
    · rw [rootSearch_eq, if_pos hl]
      simp only []
      have : exitCond limit (remc + 1) true 0 = true := by simp [exitCond]
      rw [if_pos this, only_move h2 hl]
      exact ⟨m1, 4, rfl, h2.1, Nat.le_refl _, S.lost1_L h2.2 (Nat.le_refl _), rfl, hinfo _ _⟩
    · obtain ⟨bm, bs, st', e, _, good, low, cmp, _⟩ := rootSearch_ok o hb hn S True hr g remc
        (by omega) (hNr _) st hQ hl (Or.inl ⟨m1, hk, S.lost1_not_W h2.2⟩)
        (fun _ => ⟨hno1, fun hL => hL.not_win h2.win⟩)
      rw [e]
      simp only []
      have hwin : evalBound < bs := cmp trivial (by omega) ⟨m1, hk, h2.2⟩
      rw [if_pos (exitCond_of_win _ _ _ hwin)]
      rcases good with k | ⟨m, rfl, hm, hL⟩
      · omega
      · exact ⟨m, remc, rfl, hm, by omega, hL, rfl, hinfo _ _⟩
  | succ k ih =>
    intro remc hd fuel found infos st hf hQ hi
    obtain ⟨f, rfl⟩ : ∃ f, fuel = f + 1 := ⟨fuel - 1, by omega⟩
    rw [driverLoop_succ]
    have hinfo : ∀ (sc : Int) (st' : St M), ∀ i ∈ mkInfo o g (remc + 1) sc st' :: infos,
        i.depth ≤ 5 := by
      intro sc st' i hi'
      rcases List.mem_cons.1 hi' with rfl | h
      · simp only [mkInfo]; omega
      · exact hi i h
    by_cases hl : (o.checked g).length = 1
    · rw [rootSearch_eq, if_pos hl]
      simp only []
      have : exitCond limit (remc + 1) true 0 = true := by simp [exitCond]
      rw [if_pos this, only_move h2 hl]
      exact ⟨m1, 4, rfl, h2.1, Nat.le_refl _, S.lost1_L h2.2 (Nat.le_refl _), rfl,
        fun i hi' => hinfo _ _ i (List.mem_reverse.1 hi')⟩
    · obtain ⟨bm, bs, st', e, hQ', good, low, _, _⟩ := rootSearch_ok o hb hn S True hr g remc
        (by omega) (hNr _) st hQ hl (Or.inl ⟨m1, hk, S.lost1_not_W h2.2⟩)
        (fun _ => ⟨hno1, fun hL => hL.not_win h2.win⟩)
      rw [e]
      simp only []
      have hlow := low ⟨m1, hk, S.lost1_not_W h2.2⟩
      by_cases hex : exitCond limit (remc + 1) false bs = true
      · rw [if_pos hex]
        rcases exitCond_cases hex hlow with k' | k'
        · omega
        · rcases good with k'' | ⟨m, rfl, hm, hL⟩
          · omega
          · exact ⟨m, remc, rfl, hm, by omega, hL, rfl,
              fun i hi' => hinfo _ _ i (List.mem_reverse.1 hi')⟩
      · rw [if_neg hex]
        exact ih (remc + 1) (by omega) f _ _ st' (by omega) hQ' (hinfo _ _)

theorem five_le_limitOf {md : Option Nat} (h : md = none ∨ ∃ N, md = some N ∧ 5 ≤ N) :
    5 ≤ limitOf md := by
  rcases h with h | ⟨N, h, hN⟩
  · subst h; decide
  · subst h
    unfold limitOf maxDepth Gen.maxDepth
    simp only [Option.getD_some]
    omega

/-- the driver from the fresh table, for any notion `S` of "won"/"lost" -/
theorem driver_mate2 (o : Ops G M) (hb : Bounded o) (hn : Narrow o) (S : Sem o) (g : G)
    (hNr : ∀ d, S.Nx d d g) (m1 : M) (h2 : ForcedMate2 o g m1) (hk : m1 ∈ rootMoves o g)
    (hno1 : ¬ MateIn1 o g) (runs : Nat → Bool) (hr : ∀ i, runs i = true) (off : Bool)
    (md : Option Nat) (hmd : md = none ∨ ∃ N, md = some N ∧ 5 ≤ N) :
    ∃ m r, (driver o runs g {} off md).found = some m ∧ m ∈ o.checked g ∧ r ≤ 4 ∧
      S.L r (o.push g m) ∧ (driver o runs g {} off md).stopped = false ∧
      ∀ info ∈ (driver o runs g {} off md).infos, info.depth ≤ 5 := by
  have h5 := five_le_limitOf hmd
  have := driverLoop_mate2 o hb hn S g hNr m1 h2 hk hno1 runs hr (limitOf md) h5 4 0 rfl
    (limitOf md - 1 + 1) (o.checked g).head? [] (initSt {} off) (by omega)
    (TInv_empty o S True _) (fun _ h => by cases h)
  have e : driver o runs g {} off md = driverLoop o runs g (limitOf md) (limitOf md - 1 + 1)
      (0 + 1) (o.checked g).head? [] (initSt {} off) := by
    rw [driver_eq, startDepth_fresh]
  rw [e]
  exact this

/-- **C10, mate in two (weak reading), for games without null-window re-search.** From the fresh
table, with a flag that stays up, hook on or off, without a depth limit or with a limit of at least
5: if static evaluations are never in the driver's mate range (`Bounded`), the hash respects the
notions used (`HashSem`; an injective hash does), no position has more than three legal moves
(`Narrow`), the side to move has no mate in one but a move `m1`, kept by the repetition filter,
after which every reply allows a mate in one, then the driver answers with a move after which the
opponent cannot escape a forced mate, stops by itself, and never searches deeper than 5. -/
theorem mate_in_two_found (o : Ops G M) (hb : Bounded o) (hn : Narrow o) (hs : HashSem o) (g : G)
    (m1 : M) (h2 : ForcedMate2 o g m1) (hk : m1 ∈ rootMoves o g) (hno1 : ¬ MateIn1 o g)
    (runs : Nat → Bool) (hr : ∀ i, runs i = true) (off : Bool) (md : Option Nat)
    (hmd : md = none ∨ ∃ N, md = some N ∧ 5 ≤ N) :
    let out := driver o runs g {} off md
    ∃ m, out.found = some m ∧ KeepsForcedMate o g m ∧ out.stopped = false ∧
      ∀ info ∈ out.infos, info.depth ≤ 5 := by
  obtain ⟨m, _, k1, k2, _, k4, k5, k6⟩ := driver_mate2 o hb hn (Sem.plain hs) g
    (fun _ => trivial) m1 h2 hk hno1 runs hr off md hmd
  exact ⟨m, k1, ⟨k2, k4⟩, k5, k6⟩

/-- **C10, mate in two (strong reading), for graded games without null-window re-search.** If
moreover a position determines its distance from the root, and so does its hash (`Graded`: no
transposition between different distances from the root), and the hash is injective, the move
answered keeps the mate in two: it mates at once or every reply to it allows a mate in one. -/
theorem mate_in_two_found_strong (o : Ops G M) (hb : Bounded o) (hn : Narrow o) (g : G)
    (hinj : ∀ x y, o.hash x = o.hash y → x = y) (lvl : G → Nat) (hg : Graded o g lvl)
    (m1 : M) (h2 : ForcedMate2 o g m1) (hk : m1 ∈ rootMoves o g) (hno1 : ¬ MateIn1 o g)
    (runs : Nat → Bool) (hr : ∀ i, runs i = true) (off : Bool) (md : Option Nat)
    (hmd : md = none ∨ ∃ N, md = some N ∧ 5 ≤ N) :
    let out := driver o runs g {} off md
    ∃ m, out.found = some m ∧ KeepsMate o g m ∧ out.stopped = false ∧
      ∀ info ∈ out.infos, info.depth ≤ 5 := by
  obtain ⟨m, r, k1, k2, k3, k4, k5, k6⟩ := driver_mate2 o hb hn (Sem.graded hg hinj) g
    (fun d => by show d + lvl g = d; rw [hg.root]; rfl) m1 h2 hk hno1 runs hr off md hmd
  exact ⟨m, k1, KeepsMate.of_loseP k2 k3 k4, k5, k6⟩

/-- **C10 as asked** (weak reading): injective hash, no repetition at the root, hook off. -/
theorem mate_in_two_found' (o : Ops G M) (hb : Bounded o) (hn : Narrow o) (g : G)
    (hinj : ∀ x y, o.hash x = o.hash y → x = y) (h2 : ∃ m1, ForcedMate2 o g m1)
    (hno1 : ¬ MateIn1 o g) (hrep : o.repetition g = none) (runs : Nat → Bool)
    (hr : ∀ i, runs i = true) (md : Option Nat) (hmd : md = none ∨ ∃ N, md = some N ∧ 5 ≤ N) :
    let out := driver o runs g {} false md
    ∃ m, out.found = some m ∧ KeepsForcedMate o g m ∧ out.stopped = false ∧
      ∀ info ∈ out.infos, info.depth ≤ 5 := by
  obtain ⟨m1, h2⟩ := h2
  have : rootMoves o g = o.checked g := by unfold rootMoves; rw [hrep]
  exact mate_in_two_found o hb hn (HashSem.of_injective hinj) g m1 h2 (this ▸ h2.1) hno1 runs hr
    false md hmd

/-! ## Soundness at every depth -/

/-- every iteration of the driver, for any notion `S` of "won"/"lost": a final score above
`evalBound` comes with a move after which the opponent is lost, a final score below
`-evalBound - 1` means that the root is lost -/
theorem driverLoop_sound (o : Ops G M) (hb : Bounded o) (hn : Narrow o) (S : Sem o) (g : G)
    (hNr : ∀ d, S.Nx d d g) (hne : o.checked g ≠ []) (hrep : rootMoves o g = o.checked g)
    (hl : (o.checked g).length ≠ 1) (runs : Nat → Bool) (hr : ∀ i, runs i = true) (limit : Nat)
    (hlim : limit ≤ 400) :
    ∀ (fuel remc : Nat) (found : Option M) (infos : List (Info M)) (st : St M),
      remc + 1 + fuel ≤ limit + 1 → TInv o S False remc st.tt →
      (∀ i, infos.head? = some i → i.score ≤ evalBound ∧ -evalBound - 1 ≤ i.score) →
      (driverLoop o runs g limit fuel (remc + 1) found infos st).stopped = false ∧
      ∀ info, (driverLoop o runs g limit fuel (remc + 1) found infos st).infos.getLast? =
          some info →
        (evalBound < info.score → ∃ m,
          (driverLoop o runs g limit fuel (remc + 1) found infos st).found = some m ∧
          m ∈ o.checked g ∧ S.L (info.depth - 1) (o.push g m)) ∧
        (info.score < -evalBound - 1 → S.L info.depth g) := by
  intro fuel
  induction fuel with
  | zero =>
    intro remc found infos st _ _ hi
    rw [driverLoop_zero]
    refine ⟨rfl, fun info hinfo => ?_⟩
    simp only [List.getLast?_reverse] at hinfo
    have := hi info hinfo
    exact ⟨fun h => by omega, fun h => by omega⟩
  | succ f ih =>
    intro remc found infos st hf hQ hi
    rw [driverLoop_succ]
    obtain ⟨bm, bs, st', e, hQ', good, _, _, lost⟩ := rootSearch_ok o hb hn S False hr g remc
      (by omega) (hNr _) st hQ hl (Or.inr ⟨hrep, hne⟩) (fun h => h.elim)
    rw [e]
    simp only []
    by_cases hex : exitCond limit (remc + 1) false bs = true
    · rw [if_pos hex]
      refine ⟨rfl, fun info hinfo => ?_⟩
      simp only [List.reverse_cons, List.getLast?_append, List.getLast?_singleton,
        Option.some_or] at hinfo
      cases hinfo
      refine ⟨fun h => ?_, fun h => ?_⟩
      · simp only [mkInfo] at h
        rcases good with k | ⟨m, rfl, hm, hL⟩
        · omega
        · exact ⟨m, rfl, hm, hL⟩
      · simp only [mkInfo] at h ⊢
        exact S.lose hne (fun m hm => lost (by omega) m (hrep ▸ hm))
    · rw [if_neg hex]
      obtain ⟨k1, k2⟩ := exitCond_neg hex
      have k3 : -evalBound - 1 ≤ bs := by
        have := (exitCond_false hex).2.2
        unfold mateRange at this
        simp only [evalBound, scoreMax, scoreMin, Gen.exitHi, Gen.exitLo] at *
        omega
      exact ih (remc + 1) _ _ st' (by omega) hQ' (fun i hi' => by
        simp only [List.head?_cons, Option.some.injEq] at hi'
        subst hi'
        exact ⟨k2, k3⟩)

/-- **Soundness of the mate-range scores at every depth, for games without null-window
re-search.** From the fresh table, flag up, hook on or off, any limit: if the repetition filter
keeps all the root moves and there are at least two, then whenever the last score reported is above
`evalBound = 31767` the move answered is legal and after it the opponent cannot escape a forced
mate; whenever it is below `-31768` the root cannot escape a forced mate; and the driver is never
stopped. -/
theorem driver_mate_sound (o : Ops G M) (hb : Bounded o) (hn : Narrow o) (hs : HashSem o) (g : G)
    (hrep : rootMoves o g = o.checked g) (hl : 2 ≤ (o.checked g).length) (runs : Nat → Bool)
    (hr : ∀ i, runs i = true) (off : Bool) (md : Option Nat) :
    let out := driver o runs g {} off md
    out.stopped = false ∧ ∀ info, out.infos.getLast? = some info →
      (evalBound < info.score → ∃ m, out.found = some m ∧ KeepsForcedMate o g m) ∧
      (info.score < -evalBound - 1 → Lose o g) := by
  intro out
  have hne : o.checked g ≠ [] := by
    intro h; rw [h] at hl; simp at hl
  have e : out = driverLoop o runs g (limitOf md) (limitOf md - 1 + 1) (0 + 1)
      (o.checked g).head? [] (initSt {} off) := by
    show driver o runs g {} off md = _
    rw [driver_eq, startDepth_fresh]
  have hlim : limitOf md ≤ 400 := by
    have := limitOf_le_maxDepth md
    unfold maxDepth Gen.maxDepth at this
    omega
  have h1 := one_le_limitOf md
  obtain ⟨k1, k2⟩ := driverLoop_sound o hb hn (Sem.plain hs) g (fun _ => trivial) hne hrep
    (by omega) runs hr (limitOf md) hlim (limitOf md - 1 + 1) 0 (o.checked g).head? []
    (initSt {} off) (by omega) (TInv_empty o _ False _) (fun i hi => by cases hi)
  rw [e]
  refine ⟨k1, fun info hinfo => ?_⟩
  obtain ⟨j1, j2⟩ := k2 info hinfo
  refine ⟨fun h => ?_, j2⟩
  obtain ⟨m, m1, m2, m3⟩ := j1 h
  exact ⟨m, m1, m2, m3⟩

end Chess.Search.Mate2
