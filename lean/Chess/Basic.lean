def hello := "world"
