import Chess.Model.Basic

/-!
# Specification: the laws of chess, stated over abstract positions

Independent of `Chess/Model/Game.lean` and `Text.lean`: it shares only the plain data types
(`Player`, `PieceType`, `Piece`) and nothing of the engine's generators, caches or scanners.
Meant to be read in one sitting.
-/
namespace Chess.Spec

/-- What the rules care about. Squares are `(row, col)`, row 0 = rank 1, col 0 = file a. -/
structure APos where
  board : Vector (Option Piece) 64
  side : Player
  wk : Bool
  wq : Bool
  bk : Bool
  bq : Bool
  /-- en-passant file, if the last move was a double push recorded as capturable -/
  ep : Option Nat
  deriving DecidableEq, Repr

abbrev Sq := Int × Int

def onBoard (s : Sq) : Bool := 0 ≤ s.1 && s.1 < 8 && 0 ≤ s.2 && s.2 < 8

def APos.at (a : APos) (s : Sq) : Option Piece :=
  if onBoard s then a.board.toArray.getD (s.1 * 8 + s.2).toNat none else none

def setSq (b : Vector (Option Piece) 64) (s : Sq) (v : Option Piece) : Vector (Option Piece) 64 :=
  if onBoard s then b.setIfInBounds (s.1 * 8 + s.2).toNat v else b

structure UciMove where
  src : Sq
  dst : Sq
  promo : Option PieceType
  deriving DecidableEq, Repr

def allSqs : List Sq := (List.range 64).map (fun i => (((i / 8 : Nat) : Int), ((i % 8 : Nat) : Int)))

def sgn (x : Int) : Int := if x > 0 then 1 else if x < 0 then -1 else 0

/-- every square strictly between `s` and `t` (which lie on a common line) is empty -/
def clearBetween (a : APos) (s t : Sq) : Bool :=
  let dr := t.1 - s.1
  let dc := t.2 - s.2
  let n := max dr.natAbs dc.natAbs
  (List.range n).all (fun k => k = 0 || (a.at (s.1 + sgn dr * k, s.2 + sgn dc * k)).isNone)

def forward : Player → Int
  | .white => 1
  | .black => -1

/-- the piece `pc` standing on `s` attacks square `t` -/
def attacksFrom (a : APos) (pc : Piece) (s t : Sq) : Bool :=
  let dr := t.1 - s.1
  let dc := t.2 - s.2
  let straight := (dr = 0 || dc = 0) && (dr ≠ 0 || dc ≠ 0)
  let diagonal := dr.natAbs = dc.natAbs && dr ≠ 0
  match pc.pieceType with
  | .knight => (dr.natAbs = 1 && dc.natAbs = 2) || (dr.natAbs = 2 && dc.natAbs = 1)
  | .king => max dr.natAbs dc.natAbs = 1
  | .pawn => dr = forward pc.owner && dc.natAbs = 1
  | .rook => straight && clearBetween a s t
  | .bishop => diagonal && clearBetween a s t
  | .queen => (straight || diagonal) && clearBetween a s t

/-- square `t` is attacked by some piece of `by` -/
def attacked (a : APos) (t : Sq) (by_ : Player) : Bool :=
  allSqs.any (fun s => match a.at s with
    | some pc => pc.owner = by_ && attacksFrom a pc s t
    | none => false)

def kingSq (a : APos) (pl : Player) : Option Sq :=
  allSqs.find? (fun s => a.at s = some ⟨.king, pl⟩)

def inCheck (a : APos) (pl : Player) : Bool :=
  match kingSq a pl with
  | some k => attacked a k pl.other
  | none => false

def homeRow : Player → Int
  | .white => 0
  | .black => 7

def pawnStartRow : Player → Int
  | .white => 1
  | .black => 6

def lastRow : Player → Int
  | .white => 7
  | .black => 0

/-- the row a pawn stands on when it may capture en passant -/
def epFromRow : Player → Int
  | .white => 4
  | .black => 3

def isPromoPiece : PieceType → Bool
  | .queen | .rook | .bishop | .knight => true
  | _ => false

/-- the move obeys the geometry of the piece, captures only enemies, promotes exactly on the last
row; castling needs the right, empty squares between king and rook, and king's start, transit
and arrival squares unattacked. (Whether the own king ends up attacked is `legal`.) -/
def pseudo (a : APos) (m : UciMove) : Bool :=
  onBoard m.src && onBoard m.dst &&
  match a.at m.src with
  | none => false
  | some pc =>
    pc.owner = a.side &&
    let tgt := a.at m.dst
    let ownTarget := match tgt with
      | some t => t.owner = a.side
      | none => false
    let dr := m.dst.1 - m.src.1
    let dc := m.dst.2 - m.src.2
    !ownTarget &&
    match pc.pieceType with
    | .pawn =>
      let fw := forward a.side
      let promoOk :=
        if m.dst.1 = lastRow a.side then (match m.promo with | some t => isPromoPiece t | none => false)
        else m.promo.isNone
      promoOk &&
      ( (dc = 0 && dr = fw && tgt.isNone)
        || (dc = 0 && dr = 2 * fw && m.src.1 = pawnStartRow a.side && tgt.isNone
              && (a.at (m.src.1 + fw, m.src.2)).isNone)
        || (dc.natAbs = 1 && dr = fw && tgt.isSome)
        || (dc.natAbs = 1 && dr = fw && tgt.isNone && m.src.1 = epFromRow a.side
              && a.ep = some m.dst.2.toNat
              && a.at (m.src.1, m.dst.2) = some ⟨.pawn, a.side.other⟩) )
    | .king =>
      m.promo.isNone &&
      ( attacksFrom a pc m.src m.dst
        || (let row := homeRow a.side
            m.src = (row, 4) && dr = 0 &&
            ( (m.dst = (row, 6)
                && (match a.side with | .white => a.wk | .black => a.bk)
                && (a.at (row, 5)).isNone && (a.at (row, 6)).isNone
                && !attacked a (row, 4) a.side.other && !attacked a (row, 5) a.side.other
                && !attacked a (row, 6) a.side.other)
              || (m.dst = (row, 2)
                && (match a.side with | .white => a.wq | .black => a.bq)
                && (a.at (row, 1)).isNone && (a.at (row, 2)).isNone && (a.at (row, 3)).isNone
                && !attacked a (row, 4) a.side.other && !attacked a (row, 3) a.side.other
                && !attacked a (row, 2) a.side.other) )) )
    | _ => m.promo.isNone && attacksFrom a pc m.src m.dst

/-- the position after the move, by the laws -/
def play (a : APos) (m : UciMove) : APos :=
  match a.at m.src with
  | none => a
  | some pc =>
    let dc := m.dst.2 - m.src.2
    let isCastle := pc.pieceType = .king && dc.natAbs = 2
    let isEp := pc.pieceType = .pawn && dc ≠ 0 && (a.at m.dst).isNone
    let placed : Piece := match m.promo with
      | some t => ⟨t, pc.owner⟩
      | none => pc
    let b := setSq (setSq a.board m.src none) m.dst (some placed)
    let b := if isEp then setSq b (m.src.1, m.dst.2) none else b
    let b :=
      if isCastle then
        if dc > 0 then setSq (setSq b (m.src.1, 7) none) (m.src.1, 5) (some ⟨.rook, pc.owner⟩)
        else setSq (setSq b (m.src.1, 0) none) (m.src.1, 3) (some ⟨.rook, pc.owner⟩)
      else b
    let touches (s : Sq) : Bool := m.src = s || m.dst = s
    let isDouble := pc.pieceType = .pawn && (m.dst.1 - m.src.1).natAbs = 2
    let beside (c : Int) : Bool :=
      (if onBoard (m.dst.1, c) then b.toArray.getD (m.dst.1 * 8 + c).toNat none else none)
        = some ⟨.pawn, pc.owner.other⟩
    { board := b
      side := a.side.other
      wk := a.wk && !touches (0, 4) && !touches (0, 7)
      wq := a.wq && !touches (0, 4) && !touches (0, 0)
      bk := a.bk && !touches (7, 4) && !touches (7, 7)
      bq := a.bq && !touches (7, 4) && !touches (7, 0)
      ep := if isDouble && (beside (m.dst.2 - 1) || beside (m.dst.2 + 1)) then some m.src.2.toNat else none }

/-- legal = obeys the geometry and does not leave the mover's own king attacked -/
def legal (a : APos) (m : UciMove) : Bool :=
  pseudo a m && !inCheck (play a m) a.side

/-- candidate texts: every pair of squares with every promotion suffix -/
def candidates : List UciMove :=
  allSqs.flatMap (fun s => allSqs.flatMap (fun t =>
    [⟨s, t, none⟩, ⟨s, t, some .queen⟩, ⟨s, t, some .rook⟩, ⟨s, t, some .bishop⟩, ⟨s, t, some .knight⟩]))

def legalList (a : APos) : List UciMove := candidates.filter (legal a)
def pseudoList (a : APos) : List UciMove := candidates.filter (pseudo a)

def promoLetter : PieceType → Char
  | .queen => 'q' | .rook => 'r' | .bishop => 'b' | .knight => 'n' | _ => '?'

/-- UCI long-algebraic text of a move -/
def UciMove.text (m : UciMove) : List Char :=
  [Char.ofNat (97 + m.src.2.toNat), Char.ofNat (49 + m.src.1.toNat),
   Char.ofNat (97 + m.dst.2.toNat), Char.ofNat (49 + m.dst.1.toNat)]
  ++ (match m.promo with | some t => [promoLetter t] | none => [])

def UciMove.ofText (s : List Char) : Option UciMove :=
  match s with
  | c0 :: c1 :: c2 :: c3 :: rest =>
    let f (c : Char) : Int := c.toNat - 97
    let r (c : Char) : Int := c.toNat - 49
    let src : Sq := (r c1, f c0)
    let dst : Sq := (r c3, f c2)
    if onBoard src && onBoard dst then
      match rest with
      | [] => some ⟨src, dst, none⟩
      | ['q'] => some ⟨src, dst, some .queen⟩
      | ['r'] => some ⟨src, dst, some .rook⟩
      | ['b'] => some ⟨src, dst, some .bishop⟩
      | ['n'] => some ⟨src, dst, some .knight⟩
      | _ => none
    else none
  | _ => none

/-! ### Sanity of a position (the quantifier of C01) -/

def count (a : APos) (pc : Piece) : Nat := (allSqs.filter (fun s => a.at s = some pc)).length

def materialOk (a : APos) (pl : Player) : Bool :=
  let n (t : PieceType) := count a ⟨t, pl⟩
  n .king = 1 && n .pawn + ((n .queen - 1) + (n .rook - 2) + (n .bishop - 2) + (n .knight - 2)) ≤ 8

def noEdgePawns (a : APos) : Bool :=
  (List.range 8).all (fun c =>
    (match a.at (0, (c : Int)) with | some pc => pc.pieceType ≠ .pawn | none => true)
    && (match a.at (7, (c : Int)) with | some pc => pc.pieceType ≠ .pawn | none => true))

/-- one king each, sensible material, no pawn on the first/eighth rank, the side not to move is
not in check, castling rights agree with king and rook homes, the en-passant file is backed by a
pawn that has just made its double step -/
def sane (a : APos) : Bool :=
  materialOk a .white && materialOk a .black && noEdgePawns a
  && !inCheck a a.side.other
  && (!a.wk || (a.at (0, 4) = some ⟨.king, .white⟩ && a.at (0, 7) = some ⟨.rook, .white⟩))
  && (!a.wq || (a.at (0, 4) = some ⟨.king, .white⟩ && a.at (0, 0) = some ⟨.rook, .white⟩))
  && (!a.bk || (a.at (7, 4) = some ⟨.king, .black⟩ && a.at (7, 7) = some ⟨.rook, .black⟩))
  && (!a.bq || (a.at (7, 4) = some ⟨.king, .black⟩ && a.at (7, 0) = some ⟨.rook, .black⟩))
  && (match a.ep with
      | none => true
      | some f =>
        let r := epFromRow a.side  -- the double-pushed enemy pawn stands on this row
        f < 8 && a.at (r, (f : Int)) = some ⟨.pawn, a.side.other⟩
        && (a.at (r + forward a.side, (f : Int))).isNone
        && (a.at (r + 2 * forward a.side, (f : Int))).isNone)

end Chess.Spec
