import Chess.Spec.Rules

/-!
# Specification: forced mates (the solver the C10 check runs on the implementation's answers)

`legalListFast` enumerates the legal moves from the squares that hold a piece of the mover only;
`legalListFast_eq` proves it is the SAME list as the one-line definition `legalList` of
`Rules.lean` (it is an evaluation shortcut, not a second definition of legality).
-/
namespace Chess.Spec

def ownAt (a : APos) (s : Sq) : Bool :=
  match a.at s with
  | some pc => pc.owner = a.side
  | none => false

def variants (s t : Sq) : List UciMove :=
  [⟨s, t, none⟩, ⟨s, t, some .queen⟩, ⟨s, t, some .rook⟩, ⟨s, t, some .bishop⟩, ⟨s, t, some .knight⟩]

def movesFrom (s : Sq) : List UciMove := allSqs.flatMap (variants s)

def legalListFast (a : APos) : List UciMove :=
  (allSqs.filter (ownAt a)).flatMap (fun s => (movesFrom s).filter (legal a))

theorem legal_src_own {a : APos} {m : UciMove} (h : legal a m = true) : ownAt a m.src = true := by
  unfold legal pseudo at h
  unfold ownAt
  cases hs : a.at m.src with
  | none => rw [hs] at h; simp at h
  | some pc => rw [hs] at h; simp at h ⊢; exact h.1.2.1

theorem mem_movesFrom {s : Sq} {m : UciMove} (h : m ∈ movesFrom s) : m.src = s := by
  unfold movesFrom at h
  rw [List.mem_flatMap] at h
  obtain ⟨t, _, hm⟩ := h
  simp only [variants, List.mem_cons, List.not_mem_nil, or_false] at hm
  rcases hm with rfl | rfl | rfl | rfl | rfl <;> rfl

theorem flatMap_filter_of_nil {α β : Type} (p : α → Bool) (f : α → List β)
    (h : ∀ x, p x = false → f x = []) (l : List α) : (l.filter p).flatMap f = l.flatMap f := by
  induction l with
  | nil => rfl
  | cons x xs ih =>
    cases hp : p x
    · rw [List.filter_cons_of_neg (by simp [hp]), List.flatMap_cons, h x hp, ih]; rfl
    · rw [List.filter_cons_of_pos (by simp [hp]), List.flatMap_cons, List.flatMap_cons, ih]

theorem legalListFast_eq (a : APos) : legalListFast a = legalList a := by
  unfold legalListFast legalList candidates
  rw [flatMap_filter_of_nil]
  · rw [List.filter_flatMap]; rfl
  · intro s hs
    rw [List.filter_eq_nil_iff]
    intro m hm hl
    have := legal_src_own hl
    rw [mem_movesFrom hm, hs] at this
    cases this

/-- the side to move is checkmated -/
def isMated (a : APos) : Bool := (legalListFast a).isEmpty && inCheck a a.side

/-- the side to move can force checkmate with at most `n` moves of its own -/
def winsIn : Nat → APos → Bool
  | 0, _ => false
  | n + 1, a => (legalListFast a).any (fun m =>
      let b := play a m
      let replies := legalListFast b
      if replies.isEmpty then inCheck b b.side
      else replies.all (fun r => winsIn n (play b r)))

/-- the moves after which the opponent is mated at once or cannot avoid a mate within `n - 1`
further moves of the mover: the moves that KEEP a forced mate of at most `n` moves -/
def keepMoves (n : Nat) (a : APos) : List UciMove :=
  (legalListFast a).filter (fun m =>
    let b := play a m
    let replies := legalListFast b
    if replies.isEmpty then inCheck b b.side
    else replies.all (fun r => winsIn (n - 1) (play b r)))

/-- the length of the shortest forced mate, if it is at most `n` moves -/
def mateLength (n : Nat) (a : APos) : Option Nat := (List.range (n + 1)).find? (fun k => winsIn k a)

theorem any_eq_filter {α : Type} (l : List α) (p : α → Bool) : l.any p = !(l.filter p).isEmpty := by
  induction l with
  | nil => rfl
  | cons x xs ih => cases h : p x <;> simp [List.filter_cons, h, ih]

/-- a forced mate within `n + 1` moves exists iff some move keeps it -/
theorem winsIn_succ_iff (n : Nat) (a : APos) : winsIn (n + 1) a = !(keepMoves (n + 1) a).isEmpty := by
  unfold keepMoves
  rw [winsIn, any_eq_filter]
  rfl

end Chess.Spec
