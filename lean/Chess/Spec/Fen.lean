import Chess.Spec.Rules

/-!
# Specification: FEN grammar (read declaratively), Zobrist sum, piece-square sum
-/
namespace Chess.Spec

def splitOn (sep : Char → Bool) (s : List Char) : List (List Char) :=
  let rec go : List Char → List Char → List (List Char)
    | [], cur => [cur.reverse]
    | c :: cs, cur => if sep c then cur.reverse :: go cs [] else go cs (c :: cur)
  go s []

def isWs (c : Char) : Bool := c = ' ' || c = '\t' || c = '\n' || c = '\r' || c = '\x0C'

def fields (s : List Char) : List (List Char) := (splitOn isWs s).filter (fun f => !f.isEmpty)

def pieceOfLetter : Char → Option Piece
  | 'K' => some ⟨.king, .white⟩ | 'Q' => some ⟨.queen, .white⟩ | 'R' => some ⟨.rook, .white⟩
  | 'B' => some ⟨.bishop, .white⟩ | 'N' => some ⟨.knight, .white⟩ | 'P' => some ⟨.pawn, .white⟩
  | 'k' => some ⟨.king, .black⟩ | 'q' => some ⟨.queen, .black⟩ | 'r' => some ⟨.rook, .black⟩
  | 'b' => some ⟨.bishop, .black⟩ | 'n' => some ⟨.knight, .black⟩ | 'p' => some ⟨.pawn, .black⟩
  | _ => none

def letterOfPiece (pc : Piece) : Char :=
  let c := match pc.pieceType with
    | .king => 'K' | .queen => 'Q' | .rook => 'R' | .bishop => 'B' | .knight => 'N' | .pawn => 'P'
  match pc.owner with
  | .white => c
  | .black => c.toLower

/-- one rank: letters are pieces, digits 1–8 are runs of empty squares -/
def expandRank : List Char → Option (List (Option Piece))
  | [] => some []
  | c :: cs =>
    match expandRank cs with
    | none => none
    | some rest =>
      if '1'.toNat ≤ c.toNat && c.toNat ≤ '8'.toNat then
        some (List.replicate (c.toNat - '0'.toNat) none ++ rest)
      else match pieceOfLetter c with
        | some pc => some (some pc :: rest)
        | none => none

def noAdjacentDigits : List Char → Bool
  | a :: b :: rest => !(a.isDigit && b.isDigit) && noAdjacentDigits (b :: rest)
  | _ => true

/-- placement field: eight ranks, rank 8 first, each describing exactly eight squares -/
def parsePlacement (s : List Char) : Option (Vector (Option Piece) 64) :=
  let ranks := splitOn (· = '/') s
  if ranks.length ≠ 8 then none else
  match ranks.mapM expandRank with
  | none => none
  | some rows =>
    if rows.all (fun r => r.length = 8) then
      let flat := (rows.reverse.flatten).toArray   -- rank 1 first
      if h : flat.size = 64 then some ⟨flat, h⟩ else none
    else none

def parseSide : List Char → Option Player
  | ['w'] => some .white
  | ['b'] => some .black
  | _ => none

/-- loose castling field: any non-empty string over `K Q k q -` -/
def parseCastlingLoose (s : List Char) : Option (Bool × Bool × Bool × Bool) :=
  if s.isEmpty || !s.all (fun c => c = 'K' || c = 'Q' || c = 'k' || c = 'q' || c = '-') then none
  else some (s.contains 'K', s.contains 'Q', s.contains 'k', s.contains 'q')

/-- strict castling field: `-` or distinct letters in the order `KQkq` -/
def castlingStrict (s : List Char) : Bool :=
  s = ['-'] || (!s.isEmpty && s = ['K', 'Q', 'k', 'q'].filter (fun c => s.contains c))

def parseEpLoose : List Char → Option (Option Nat)
  | ['-'] => some none
  | [f, r] =>
    if 'a'.toNat ≤ f.toNat && f.toNat ≤ 'h'.toNat && (r = '3' || r = '6') then
      some (some (f.toNat - 'a'.toNat))
    else none
  | _ => none

/-- The *loose* reading: what any correct reader may accept. A string for which this is `none`
is malformed beyond doubt and must be refused. -/
def fenLoose (s : List Char) : Option APos :=
  match fields s with
  | p :: sd :: c :: e :: _ =>
    match parsePlacement p, parseSide sd, parseCastlingLoose c, parseEpLoose e with
    | some b, some side, some (wk, wq, bk, bq), some ep =>
      some { board := b, side := side, wk := wk, wq := wq, bk := bk, bq := bq, ep := ep }
    | _, _, _, _ => none
  | _ => none

/-- the en-passant field names a square of the rank behind a pawn of the side that just moved: rank 6
when White is to move, rank 3 when Black is. A text whose en-passant square is on the other rank names
a square no double step can have passed over: it is malformed and must be refused (a reader that
"repairs" it would import a different position from the one written). -/
def epRankOk (s : List Char) : Bool :=
  match fields s with
  | _ :: sd :: _ :: e :: _ =>
    (match e, parseSide sd with
     | [_, r], some .white => r = '6'
     | [_, r], some .black => r = '3'
     | _, _ => true)
  | _ => true

def allDigits (s : List Char) : Bool := !s.isEmpty && s.all Char.isDigit

/-- The *strict* reading: a well-formed FEN. Four to six fields, no adjacent digits, castling
letters distinct and ordered, en-passant rank matching the side, numeric counters. -/
def fenStrict (s : List Char) : Option APos :=
  let fs := fields s
  if fs.length < 4 || fs.length > 6 then none else
  match fs with
  | p :: _ :: c :: e :: rest =>
    if !noAdjacentDigits p || !castlingStrict c || !rest.all allDigits then none else
    match fenLoose s with
    | some a =>
      (match e, a.side with
       | [_, '6'], .white => some a
       | [_, '3'], .black => some a
       | ['-'], _ => some a
       | _, _ => none)
    | none => none
  | _ => none

/-- rendering of a position as the first four FEN fields, straight from the grammar -/
def renderRank (r : List (Option Piece)) : List Char :=
  let rec go : List (Option Piece) → Nat → List Char
    | [], n => if n > 0 then [Char.ofNat (48 + n)] else []
    | none :: rest, n => go rest (n + 1)
    | some pc :: rest, n => (if n > 0 then [Char.ofNat (48 + n)] else []) ++ letterOfPiece pc :: go rest 0
  go r 0

def render4 (a : APos) : List Char :=
  let rows := (List.range 8).map (fun r => (List.range 8).map (fun (c : Nat) => a.at (((7 - r : Nat) : Int), (c : Int))))
  let placement := List.intercalate ['/'] (rows.map renderRank)
  let cast := (if a.wk then ['K'] else []) ++ (if a.wq then ['Q'] else [])
    ++ (if a.bk then ['k'] else []) ++ (if a.bq then ['q'] else [])
  let epf := match a.ep with
    | some f => [Char.ofNat (97 + f), match a.side with | .white => '6' | .black => '3']
    | none => ['-']
  placement ++ [' ', match a.side with | .white => 'w' | .black => 'b', ' ']
    ++ (if cast.isEmpty then ['-'] else cast) ++ [' '] ++ epf

/-- FIDE-style en passant: drop a recorded file no enemy pawn can use (so that FIDE-style and
capturable-only texts denote the same position) -/
def normalizeEp (a : APos) : APos :=
  match a.ep with
  | none => a
  | some f =>
    let r := epFromRow a.side
    let can (c : Int) : Bool := a.at (r, c) = some ⟨.pawn, a.side⟩
    if can ((f : Int) - 1) || can ((f : Int) + 1) then a else { a with ep := none }

/-! ### Zobrist sum and piece-square sum of an abstract position -/

def pieceIndex (pc : Piece) : Nat :=
  (match pc.pieceType with
   | .queen => 0 | .rook => 1 | .bishop => 2 | .knight => 3 | .pawn => 4 | .king => 5)
  + (match pc.owner with | .white => 0 | .black => 6)

def squareKey (i : Nat) : Option Piece → UInt64
  | none => Gen.emptyPlace
  | some pc => Gen.pieceKeys.getD (i * 12 + pieceIndex pc) 0

def stateByte (a : APos) : Nat :=
  (match a.ep with | some f => f | none => 8)
  + (if a.wk then 16 else 0) + (if a.wq then 32 else 0) + (if a.bk then 64 else 0) + (if a.bq then 128 else 0)

/-- XOR of the published keys of everything the rules care about -/
def zobrist (a : APos) : UInt64 :=
  let placement := (List.range 64).foldl (fun h i => h ^^^ squareKey i (a.board.toArray.getD i none)) 0
  placement ^^^ (match a.side with | .white => 0 | .black => Gen.blackToMove)
    ^^^ Gen.stateKeys.getD (stateByte a) 0

def psqTable (t : PieceType) (endgame : Bool) : Array Int :=
  match t with
  | .queen => Gen.queenScores | .rook => Gen.rookScores | .bishop => Gen.bishopScores
  | .knight => Gen.knightScores | .pawn => Gen.pawnScores
  | .king => if endgame then Gen.kingScoresEnd else Gen.kingScoresMiddle

/-- value of one piece on square `i` (rank-flipped lookup for White, negated for Black) -/
def psqSquare (endgame : Bool) (i : Nat) : Option Piece → Int
  | none => 0
  | some pc =>
    let row := i / 8
    let col := i % 8
    match pc.owner with
    | .white => (psqTable pc.pieceType endgame).getD ((7 - row) * 8 + col) 0
    | .black => -((psqTable pc.pieceType endgame).getD (row * 8 + col) 0)

/-- material and piece-square sum, both kings by the table of the given phase -/
def psq (a : APos) (endgame : Bool) : Int :=
  (List.range 64).foldl (fun s i => s + psqSquare endgame i (a.board.toArray.getD i none)) 0

/-- the engine's end-game test: total absolute value on the board below twice the threshold -/
def lowMaterial (a : APos) (endgame : Bool) : Bool :=
  (List.range 64).foldl (fun s i => s + (psqSquare endgame i (a.board.toArray.getD i none)).natAbs) 0
    < 2 * Gen.endgameThreshold

/-- colour-mirrored position: ranks flipped, colours swapped -/
def mirror (a : APos) : APos :=
  { board := Vector.ofFn (fun (i : Fin 64) =>
      let j := (7 - i.val / 8) * 8 + i.val % 8
      (a.board.toArray.getD j none).map (fun pc => ⟨pc.pieceType, pc.owner.other⟩))
    side := a.side.other, wk := a.bk, wq := a.bq, bk := a.wk, bq := a.wq, ep := a.ep }

end Chess.Spec
