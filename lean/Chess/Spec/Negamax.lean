import Chess.Model.Search

/-!
# The reference search: plain negamax, no window, no ordering, no table

`refQ`, `refD1`, `refNode`, `refRoot` give the value the engine's search is *meant* to compute at a
quiescence node, a depth-1 node, an interior node and the root, over the same abstract game
interface `Ops` as `Chess.Model.Search`. Every value is a maximum over a move list, written as a
fold of `max`; `refNode_perm` / `refRoot_perm` say that it does not depend on the order in which
the moves are listed ("the value does not depend on the order in which moves are tried").
-/
namespace Chess.Search

/-- maximum of a list of integers, `d` for the empty list -/
def maxL (d : Int) : List Int → Int
  | [] => d
  | x :: xs => xs.foldl max x

theorem foldl_max_le_iff (l : List Int) (a c : Int) :
    l.foldl max a ≤ c ↔ a ≤ c ∧ ∀ y ∈ l, y ≤ c := by
  induction l generalizing a with
  | nil => simp
  | cons x xs ih =>
    simp only [List.foldl_cons, ih, List.mem_cons, forall_eq_or_imp, Int.max_le, and_assoc]

theorem maxL_le_iff {l : List Int} (h : l ≠ []) (d c : Int) :
    maxL d l ≤ c ↔ ∀ y ∈ l, y ≤ c := by
  cases l with
  | nil => exact absurd rfl h
  | cons x xs => simp only [maxL, foldl_max_le_iff, List.mem_cons, forall_eq_or_imp]

/-- the maximum over a list is order independent -/
theorem foldl_max_perm {l l' : List Int} (p : l.Perm l') (a : Int) :
    l.foldl max a = l'.foldl max a := by
  apply Int.le_antisymm
  · exact (foldl_max_le_iff l a _).2
      ⟨((foldl_max_le_iff l' a _).1 (Int.le_refl _)).1,
       fun y hy => ((foldl_max_le_iff l' a _).1 (Int.le_refl _)).2 y (p.mem_iff.1 hy)⟩
  · exact (foldl_max_le_iff l' a _).2
      ⟨((foldl_max_le_iff l a _).1 (Int.le_refl _)).1,
       fun y hy => ((foldl_max_le_iff l a _).1 (Int.le_refl _)).2 y (p.mem_iff.2 hy)⟩

/-- the maximum over a list is order independent -/
theorem maxL_perm {l l' : List Int} (p : l.Perm l') (d : Int) : maxL d l = maxL d l' := by
  by_cases h : l = []
  · subst h; rw [List.nil_perm.1 p]
  · have h' : l' ≠ [] := fun e => h (by subst e; exact List.perm_nil.1 p)
    apply Int.le_antisymm
    · exact (maxL_le_iff h d _).2 fun y hy =>
        (maxL_le_iff h' d _).1 (Int.le_refl _) y (p.mem_iff.1 hy)
    · exact (maxL_le_iff h' d _).2 fun y hy =>
        (maxL_le_iff h d _).1 (Int.le_refl _) y (p.mem_iff.2 hy)

theorem foldl_max_eq_max_maxL {l : List Int} (h : l ≠ []) (a d : Int) :
    l.foldl max a = max a (maxL d l) := by
  apply Int.le_antisymm
  · refine (foldl_max_le_iff l a _).2 ⟨by omega, fun y hy => ?_⟩
    have := (maxL_le_iff h d _).1 (Int.le_refl _) y hy
    omega
  · have h1 := (foldl_max_le_iff l a _).1 (Int.le_refl _)
    have h2 : maxL d l ≤ l.foldl max a := (maxL_le_iff h d _).2 h1.2
    omega

variable {G M : Type}

/-- value of a node without moves -/
def deadValue (o : Ops G M) (mate : Int) (g : G) (rd : Int) : Int :=
  if o.safe g then 0 else scoreMin + mate + rd

/-- quiescence: stand pat or the best capture, to the same fuel as `qsearch` -/
def refQ (o : Ops G M) : Nat → G → Int → Int
  | 0, g, _ => o.eval g
  | fuel + 1, g, rd =>
    let ms := o.unchecked g
    if ms.isEmpty then deadValue o Gen.mateQ g rd
    else ((ms.filter o.tactical).map fun m => -(refQ o fuel (o.push g m) (rd + 1))).foldl max (o.eval g)

/-- the value of move `m` at a depth-1 node -/
def d1Score (o : Ops G M) (g : G) (rd : Int) (m : M) : Int :=
  -(refQ o qFuel (o.push g m) (rd + 1))

/-- depth 1: the best move, each answered by quiescence -/
def refD1 (o : Ops G M) (g : G) (rd : Int) : Int :=
  let ms := o.unchecked g
  if ms.isEmpty then deadValue o Gen.mateD1 g rd
  else maxL 0 (ms.map (d1Score o g rd))

/-- interior node: the best legal move -/
def refNode (o : Ops G M) : Nat → G → Int → Int
  | 0, g, rd => refQ o qFuel g rd
  | 1, g, rd => refD1 o g rd
  | r + 2, g, rd =>
    let ms := o.checked g
    if ms.isEmpty then deadValue o Gen.mateNode g rd
    else maxL 0 (ms.map fun m => -(refNode o (r + 1) (o.push g m) (rd + 1)))

/-- the move list of `rootSearch` before sorting -/
def rootMoves [DecidableEq M] (o : Ops G M) (g : G) : List M :=
  match o.repetition g with
  | some rep => swapRemoveFirst rep (o.checked g)
  | none => o.checked g

/-- the value of root move `m` -/
def rootScore (o : Ops G M) (depth : Nat) (g : G) (m : M) : Int :=
  -(refNode o (depth - 1) (o.push g m) 1)

/-- root: the best root move, floored at the engine's initial `best_score` -/
def refRoot [DecidableEq M] (o : Ops G M) (depth : Nat) (g : G) : Int :=
  ((rootMoves o g).map (rootScore o depth g)).foldl max (scoreMin + 1)

/-! ## Order independence -/

/-- `refNode` with the children's values and the move list given explicitly -/
def nodeValue (dead : Int) (f : M → Int) (ms : List M) : Int :=
  if ms.isEmpty then dead else maxL 0 (ms.map f)

theorem nodeValue_perm {ms ms' : List M} (p : ms.Perm ms') (dead : Int) (f : M → Int) :
    nodeValue dead f ms = nodeValue dead f ms' := by
  unfold nodeValue
  have he : ms.isEmpty = ms'.isEmpty := by
    cases ms with
    | nil => rw [List.nil_perm.1 p]
    | cons x xs =>
      cases ms' with
      | nil => exact absurd (List.perm_nil.1 p) (List.cons_ne_nil _ _)
      | cons y ys => rfl
  rw [he, maxL_perm (p.map f)]

theorem refNode_succ_succ (o : Ops G M) (r : Nat) (g : G) (rd : Int) :
    refNode o (r + 2) g rd =
      nodeValue (deadValue o Gen.mateNode g rd)
        (fun m => -(refNode o (r + 1) (o.push g m) (rd + 1))) (o.checked g) := by
  simp only [refNode, nodeValue]

theorem refD1_eq (o : Ops G M) (g : G) (rd : Int) :
    refD1 o g rd = nodeValue (deadValue o Gen.mateD1 g rd) (d1Score o g rd) (o.unchecked g) := by
  simp only [refD1, nodeValue]

/-- The value of an interior node is the same for every game interface that lists the same moves
in another order: if `o'` differs from `o` only in `checked`/`unchecked` and these are permutations
of one another at every position, the reference values agree. Stated at one node: any permutation
of the move list of this node gives the same value. -/
theorem refNode_perm (o : Ops G M) (r : Nat) (g : G) (rd : Int) {ms : List M}
    (p : (o.checked g).Perm ms) :
    refNode o (r + 2) g rd =
      nodeValue (deadValue o Gen.mateNode g rd)
        (fun m => -(refNode o (r + 1) (o.push g m) (rd + 1))) ms := by
  rw [refNode_succ_succ, nodeValue_perm p]

theorem refD1_perm (o : Ops G M) (g : G) (rd : Int) {ms : List M} (p : (o.unchecked g).Perm ms) :
    refD1 o g rd = nodeValue (deadValue o Gen.mateD1 g rd) (d1Score o g rd) ms := by
  rw [refD1_eq, nodeValue_perm p]

/-- `o'` is `o` with the move lists of every position listed in another order -/
structure Reordered (o o' : Ops G M) : Prop where
  push : o'.push = o.push
  eval : o'.eval = o.eval
  safe : o'.safe = o.safe
  tactical : o'.tactical = o.tactical
  checked : ∀ g, (o.checked g).Perm (o'.checked g)
  unchecked : ∀ g, (o.unchecked g).Perm (o'.unchecked g)

theorem isEmpty_eq_of_perm {α : Type} {l l' : List α} (p : l.Perm l') : l.isEmpty = l'.isEmpty := by
  cases l with
  | nil => rw [List.nil_perm.1 p]
  | cons x xs =>
    cases l' with
    | nil => exact absurd (List.perm_nil.1 p) (List.cons_ne_nil _ _)
    | cons y ys => rfl

theorem deadValue_reordered {o o' : Ops G M} (h : Reordered o o') (mate : Int) (g : G) (rd : Int) :
    deadValue o' mate g rd = deadValue o mate g rd := by
  simp only [deadValue, h.safe]

/-- the quiescence value does not depend on the order in which any position lists its moves -/
theorem refQ_reordered {o o' : Ops G M} (h : Reordered o o') (fuel : Nat) (g : G) (rd : Int) :
    refQ o' fuel g rd = refQ o fuel g rd := by
  induction fuel generalizing g rd with
  | zero => simp only [refQ, h.eval]
  | succ f ih =>
    simp only [refQ, ← isEmpty_eq_of_perm (h.unchecked g), deadValue_reordered h, h.eval, h.push,
      h.tactical, ih]
    split
    · rfl
    · exact foldl_max_perm (((h.unchecked g).symm.filter _).map _) _

/-- the depth-1 value does not depend on the order in which any position lists its moves -/
theorem refD1_reordered {o o' : Ops G M} (h : Reordered o o') (g : G) (rd : Int) :
    refD1 o' g rd = refD1 o g rd := by
  have hs : d1Score o' g rd = d1Score o g rd := by
    funext m; simp only [d1Score, refQ_reordered h, h.push]
  rw [refD1_eq, refD1_eq, deadValue_reordered h, hs]
  exact nodeValue_perm (h.unchecked g).symm _ _

/-- the value of an interior node does not depend on the order in which any position lists its
moves -/
theorem refNode_reordered {o o' : Ops G M} (h : Reordered o o') (remaining : Nat) (g : G) (rd : Int) :
    refNode o' remaining g rd = refNode o remaining g rd := by
  induction remaining using Nat.strongRecOn generalizing g rd with
  | _ n ih =>
    match n with
    | 0 => simp only [refNode, refQ_reordered h]
    | 1 => simp only [refNode, refD1_reordered h]
    | r + 2 =>
      rw [refNode_succ_succ, refNode_succ_succ, deadValue_reordered h, h.push]
      have : (fun m => -(refNode o' (r + 1) (o.push g m) (rd + 1))) =
          (fun m => -(refNode o (r + 1) (o.push g m) (rd + 1))) := by
        funext m; rw [ih (r + 1) (by omega)]
      rw [this]
      exact nodeValue_perm (h.checked g).symm _ _

theorem refRoot_perm [DecidableEq M] (o : Ops G M) (depth : Nat) (g : G) {ms : List M}
    (p : (rootMoves o g).Perm ms) :
    refRoot o depth g = (ms.map (rootScore o depth g)).foldl max (scoreMin + 1) := by
  unfold refRoot
  exact foldl_max_perm (p.map _) _

/-! ## `swapRemoveFirst` removes one occurrence, as a multiset -/

theorem cons_dropLast_perm {t : List M} {last : M} (h : t.getLast? = some last) :
    (last :: t.dropLast).Perm t := by
  induction t with
  | nil => cases h
  | cons b t ih =>
    cases t with
    | nil =>
      simp only [List.getLast?_singleton, Option.some.injEq] at h
      subst h; exact List.Perm.refl _
    | cons c t' =>
      rw [List.getLast?_cons_cons] at h
      rw [List.dropLast_cons_of_ne_nil (List.cons_ne_nil _ _)]
      exact (List.Perm.swap _ _ _).trans ((ih h).cons _)

theorem swapRemove_perm_eraseIdx (ms : List M) (i : Nat) (last : M) (hl : ms.getLast? = some last)
    (hi : i < ms.length) :
    (if i = ms.length - 1 then ms.dropLast else (ms.set i last).dropLast).Perm (ms.eraseIdx i) := by
  induction ms generalizing i with
  | nil => cases hl
  | cons a t ih =>
    cases t with
    | nil =>
      have : i = 0 := by simp only [List.length_singleton] at hi; omega
      subst this
      simp
    | cons b t' =>
      rw [List.getLast?_cons_cons] at hl
      cases i with
      | zero =>
        simp only [List.length_cons, List.set_cons_zero, List.eraseIdx_zero, List.tail_cons]
        rw [if_neg (by omega), List.dropLast_cons_of_ne_nil (List.cons_ne_nil _ _)]
        exact cons_dropLast_perm hl
      | succ j =>
        have hj : j < (b :: t').length := by simpa using hi
        have := ih j hl hj
        simp only [List.length_cons, List.set_cons_succ, List.eraseIdx_cons_succ] at this ⊢
        by_cases hc : j = t'.length + 1 - 1
        · rw [if_pos hc] at this
          rw [if_pos (by omega), List.dropLast_cons_of_ne_nil (List.cons_ne_nil _ _)]
          exact this.cons _
        · rw [if_neg hc] at this
          rw [if_neg (by omega), List.dropLast_cons_of_ne_nil]
          · exact this.cons _
          · intro h0
            have := congrArg List.length h0
            simp at this

theorem swapRemoveFirst_perm_erase [DecidableEq M] (x : M) (ms : List M) :
    (swapRemoveFirst x ms).Perm (ms.erase x) := by
  unfold swapRemoveFirst
  rw [List.erase_eq_eraseIdx]
  cases hidx : ms.idxOf? x with
  | none => exact List.Perm.refl _
  | some i =>
    have hi : i < ms.length := by
      unfold List.idxOf? at hidx
      exact (List.findIdx?_eq_some_iff_getElem.1 hidx).1
    simp only []
    cases hl : ms.getLast? with
    | none =>
      rw [List.getLast?_eq_none_iff] at hl
      subst hl; cases hi
    | some last => exact swapRemove_perm_eraseIdx ms i last hl hi

/-- the root move list of a reordered game is a permutation of the root move list -/
theorem rootMoves_reordered [DecidableEq M] {o o' : Ops G M} (h : Reordered o o')
    (hrep : o'.repetition = o.repetition) (g : G) : (rootMoves o g).Perm (rootMoves o' g) := by
  unfold rootMoves
  rw [hrep]
  cases o.repetition g with
  | none => exact h.checked g
  | some rep =>
    exact (swapRemoveFirst_perm_erase rep _).trans
      (((h.checked g).erase rep).trans (swapRemoveFirst_perm_erase rep _).symm)

/-- the root value does not depend on the order in which any position lists its moves -/
theorem refRoot_reordered [DecidableEq M] {o o' : Ops G M} (h : Reordered o o')
    (hrep : o'.repetition = o.repetition) (depth : Nat) (g : G) :
    refRoot o' depth g = refRoot o depth g := by
  have hs : rootScore o' depth g = rootScore o depth g := by
    funext m; simp only [rootScore, refNode_reordered h, h.push]
  rw [refRoot_perm o depth g (rootMoves_reordered h hrep g), ← hs]
  rfl

end Chess.Search
