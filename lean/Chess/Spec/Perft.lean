import Chess.Spec.Rules
import Chess.Spec.Mates

/-!
# Specification: the number of legal lines of a given length

`Spec.perft n a` counts the sequences of `n` moves, each legal by the rules (`legalList`) in the
position reached so far (`play`). It mentions neither the engine nor its shortcut for the last ply.
`perftFast` is the same number computed with `legalListFast` (an evaluation shortcut, proved equal).
-/
namespace Chess.Spec

/-- the number of legal lines of length `n` from `a` -/
def perft : Nat → APos → Nat
  | 0, _ => 1
  | n + 1, a => ((legalList a).map (fun m => perft n (play a m))).sum

/-- the same with the faster enumeration of the legal moves -/
def perftFast : Nat → APos → Nat
  | 0, _ => 1
  | n + 1, a => ((legalListFast a).map (fun m => perftFast n (play a m))).sum

theorem perftFast_eq : ∀ (n : Nat) (a : APos), perftFast n a = perft n a
  | 0, _ => rfl
  | n + 1, a => by
    simp only [perftFast, perft, legalListFast_eq]
    congr 1
    exact List.map_congr_left (fun m _ => perftFast_eq n (play a m))

/-- the per-move split: for every legal move its text and the number of lines below it, sorted by
text is what the command line prints -/
def perftDivide (n : Nat) (a : APos) : List (List Char × Nat) :=
  (legalList a).map (fun m => (m.text, perft n (play a m)))

theorem perft_zero (a : APos) : perft 0 a = 1 := rfl

theorem perft_succ (n : Nat) (a : APos) :
    perft (n + 1) a = ((legalList a).map (fun m => perft n (play a m))).sum := rfl

/-- one ply: the number of legal moves -/
theorem perft_one (a : APos) : perft 1 a = (legalList a).length := by
  rw [perft_succ]
  simp only [perft_zero]
  have : ∀ l : List UciMove, (l.map (fun _ => 1)).sum = l.length := by
    intro l
    induction l with
    | nil => rfl
    | cons x xs ih => simp only [List.map_cons, List.sum_cons, List.length_cons, ih]; omega
  exact this _

end Chess.Spec
