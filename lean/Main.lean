import Chess.Model.Text
import Chess.Model.Search
import Chess.Model.SearchF
import Chess.Model.Uci
import Chess.Model.Go
import Chess.Model.Share
import Chess.Model.Perft
import Chess.Spec.Perft
import Chess.Spec.Rules
import Chess.Spec.Fen
import Chess.Spec.Mates
import Chess.Lemmas.AlphaBeta
import Chess.Lemmas.AlphaBetaClamp

/-!
# Line-protocol driver (`chessdrv`): the model side of the correspondence check and the
evaluator of the specification on the implementation's outputs. One request per line;
answers are `@<line number>` followed by one or more lines.
-/
open Chess

def S (l : List Char) : String := String.ofList l

def descr (m : Move) : String :=
  let uci := S m.uci
  let capc (c : Option Piece) : String := match c with
    | some p => String.singleton p.asCharAscii
    | none => "-"
  match m with
  | .normal pc _ _ cap => s!"{uci}:N:{pc.asCharAscii}:{capc cap}"
  | .promotion _ _ _ _ cap => s!"{uci}:P:{(m.uci.getLast?).getD '?'}:{capc cap}"
  | .castlingShort _ => s!"{uci}:S:-:-"
  | .castlingLong _ => s!"{uci}:L:-:-"
  | .enPassant .. => s!"{uci}:E:-:-"

def sortedMoves (ms : List Move) : List (String × Move) :=
  (ms.map (fun m => (descr m, m))).mergeSort (fun a b => a.1 ≤ b.1)

def hex16 (h : UInt64) : String :=
  let s := S (hexUpper h)
  String.ofList (List.replicate (16 - s.length) '0') ++ s

def obs (g : Game) : String :=
  s!"{S g.fen}|{hex16 g.hash}|{g.score}|{match g.player with | .white => "w" | .black => "b"}|{g.wking.row},{g.wking.col}|{g.bking.row},{g.bking.col}|{g.len}"

def field (d : String) (i : Nat) : String := ((d.splitOn ":")[i]?).getD ""

def biasPick (l : List (String × Move)) (r : Nat) : Option Nat :=
  if l.isEmpty then none else
  let sel := r % 8
  let k := r / 8
  let idxs := List.range l.length
  let rare := idxs.filter (fun i => match l[i]? with
    | some (d, _) => let f := field d 1; f == "S" || f == "L" || f == "E" || f == "P"
    | none => false)
  let caps := idxs.filter (fun i => match l[i]? with
    | some (d, _) => field d 3 != "-"
    | none => false)
  if sel < 3 && !rare.isEmpty then rare[k % rare.length]?
  else if sel < 5 && !caps.isEmpty then caps[k % caps.length]?
  else some (k % l.length)

def esc (s : String) : String := (s.replace "\\" "\\\\").replace "\n" "\\n"

structure Ctx where
  game : Option Game := none
  undo : List Move := []
  table : Search.Table Move := {}

/-- text of an abstract position and of spec moves -/
def specMoves (ms : List Spec.UciMove) : String :=
  let l := (ms.map (fun m => S m.text)).mergeSort (fun a b => a ≤ b)
  s!"{l.length} {",".intercalate l}"

def specClass (s : List Char) : String :=
  match Spec.fenStrict s with
  | some a => if !Spec.noEdgePawns a then "malformed" else   -- a pawn on the first or last rank: no position of chess
      if Spec.sane a then "strict-sane" else
      (if Spec.materialOk a .white && Spec.materialOk a .black && Spec.noEdgePawns a then "strict-material" else "strict")
  | none => match Spec.fenLoose s with
    | some a => if Spec.epRankOk s && Spec.noEdgePawns a then "loose" else "malformed"   -- wrong en-passant rank / edge pawn
    | none => "malformed"

def fmtInfos (infos : List (Search.Info Move)) : List String :=
  infos.flatMap (fun i =>
    [s!"info depth {i.depth}", s!"info score cp {i.score}", s!"info nodes {i.nodes}",
     "info pv " ++ String.join (i.pv.map (fun m => S m.uci ++ " "))])

def runOp (ctx : Ctx) (line : String) : Ctx × List String :=
  let (op, rest) := match line.splitOn " " with
    | [] => ("", "")
    | o :: r => (o, (" ".intercalate r).trimAsciiStart.toString)
  let restL := rest.toList
  let args := (rest.splitOn " ").filter (· ≠ "")
  let withGame (f : Game → Ctx × List String) : Ctx × List String :=
    match ctx.game with
    | some g => f g
    | none => (ctx, ["nogame"])
  match op with
  | "new" =>
    match Game.ofFen restL with
    | .ok g => ({ ctx with game := some g, undo := [] }, ["ok"])
    | .refused _ => ({ ctx with game := none, undo := [] }, ["refused"])
    | .fault w => ({ ctx with game := none, undo := [] }, [s!"fault:{w}"])
  | "obs" => withGame fun g => (ctx, [obs g])
  | "moves" | "movesraw" => withGame fun g =>
    let (ms, g') := g.getMoves (rest.startsWith "c")
    let ds := ms.map descr
    let ds := if op == "moves" then ds.mergeSort (fun a b => a ≤ b) else ds
    ({ ctx with game := some g' }, [s!"{ds.length} {",".intercalate ds}"])
  | "push" => withGame fun g =>
    let checked := (args[0]?.getD "c").startsWith "c"
    let k := (args[1]?.bind String.toNat?).getD 0
    let (ms, g') := g.getMoves checked
    let l := sortedMoves ms
    match l[k % l.length]? with
    | none => ({ ctx with game := some g' }, ["none"])
    | some (d, m) => ({ ctx with game := some (g'.push m), undo := m :: ctx.undo }, [d])
  | "pushh" | "pushbias" => withGame fun g =>
    let r := (rest.trimAscii.toString.toNat?).getD 0
    let (ms, g') := g.getMoves true
    let l := sortedMoves ms
    let pick := if op == "pushh" then (if l.isEmpty then none else some (r % l.length)) else biasPick l r
    match pick.bind (l[·]?) with
    | none => ({ ctx with game := some g' }, ["none"])
    | some (d, m) =>
      if g'.len ≥ 399 then ({ ctx with game := some g' }, ["toolong"])
      else ({ ctx with game := some (g'.pushHistory m), undo := [] }, [d])
  | "playh" => withGame fun g =>
    let (ms, g') := g.getMoves true
    let l := sortedMoves ms
    match l.find? (fun (d, _) => field d 0 == rest.trimAscii.toString) with
    | some (d, m) => ({ ctx with game := some (g'.pushHistory m), undo := [] }, [d])
    | none => ({ ctx with game := some g' }, ["nomove"])
  | "undo" => withGame fun g =>
    match ctx.undo with
    | m :: us => ({ ctx with game := some (g.pop m), undo := us }, ["ok"])
    | [] => (ctx, ["empty"])
  | "parseuci" => withGame fun g =>
    match Move.fromUci restL g with
    | some m => (ctx, [descr m])
    | none => (ctx, ["none"])
  | "position" =>
    let (r, g') := Uci.commandPosition ctx.game (splitWs restL)
    let state := match g' with
      | some g => S g.fen
      | none => "nogame"
    ({ ctx with game := g', undo := [] }, [(if r then "ok " else "error ") ++ state])
  | "pgn" => withGame fun g => (ctx, [esc (S g.pgn)])
  | "show" => withGame fun g => (ctx, [esc (S g.show)])
  | "ttnew" => ({ ctx with table := {} }, ["ok"])
  | "searchroot" => withGame fun g =>
    match args.map String.toInt? with
    | [some depth, some stopAfter, some clear] =>
      let runs : Nat → Bool := fun i => stopAfter < 0 || (i : Int) < stopAfter
      let st : Search.St Move :=
        { tt := ctx.table, killers := Array.replicate Gen.killerLen none,
          history := Array.replicate Gen.historyLen 0, polls := 0, ttOff := clear ≠ 0 }
      match Search.rootSearchF Uci.chessOps runs g depth.toNat st with
      | (st, none) => ({ ctx with table := st.tt }, [s!"stopped polls={stopAfter + 1}"])
      | (st, some (m, score, only)) =>
        ({ ctx with table := st.tt },
         [s!"best={match m with | some m => S m.uci | none => "none"} score={score} only={if only then 1 else 0} polls={st.polls} tt={st.tt.size}"])
    | _ => (ctx, ["badargs"])
  | "search" => withGame fun g =>
    match args with
    | [maxd, stopAfter, clear] =>
      let stopAfter := stopAfter.toInt?.getD (-1)
      let runs : Nat → Bool := fun i => stopAfter < 0 || (i : Int) < stopAfter
      let out := Search.driverF Uci.chessOps runs g ctx.table (clear != "0")
        (maxd.toNat?.bind (fun n => if n < 256 then some n else none))
      let polls : Int := if out.stopped then stopAfter + 1 else out.st.polls
      ({ ctx with table := out.st.tt },
       fmtInfos out.infos ++ [s!"bestmove={match out.found with | some m => S m.uci | none => "none"} polls={polls} tt={out.st.tt.size}"])
    | _ => (ctx, ["badargs"])
  | "refroot" => withGame fun g =>
    -- the unpruned reference value of the root and whether the tree meets the theorem's hypotheses
    match args.map String.toNat? with
    | [some depth] =>
      let o := Uci.chessOps
      let live := Search.rootInRangeB o depth g
      let liveK := live || Search.rootInRangeKB 9000 o depth g
      (ctx, [s!"ref={Search.refRoot o depth g} live={if live then 1 else 0} moves={(o.checked g).length} liveK={if liveK then 1 else 0}"])
    | _ => (ctx, ["badargs"])
  | "budget" =>
    -- budget <wtime|-> <btime|-> <winc|-> <binc|-> <movetime|-> <infinite 0|1> <w|b> <share>
    match args with
    | [wt, bt, wi, bi, mt, inf, side, share] =>
      let r := Uci.budget wt.toNat? bt.toNat? wi.toNat? bi.toNat? mt.toNat? (inf == "1")
        (if side == "w" then Player.white else Player.black) (fun _ => share.toNat?.getD 0)
      (ctx, [match r with | some t => s!"time {t}" | none => "notimer"])
    | _ => (ctx, ["badargs"])
  | "gocmd" =>
    -- gocmd <w|b> <the words after `go`, verbatim>: the whole of command_go's arithmetic, float expression included
    match args with
    | side :: _ =>
      let words := (splitWs restL).drop 1
      let pl := if side == "w" then Player.white else Player.black
      let r := Uci.goBudget words pl Share.shareF64
      let a := Uci.goArgs words
      let f := fun (x : Option Nat) => match x with | some v => toString v | none => "-"
      (ctx, [(match r with | some t => s!"time {t}" | none => "notimer") ++
        s!" limit {Uci.goLimit words} args {f a.wtime} {f a.btime} {f a.winc} {f a.binc} {f a.depth} {f a.movetime} {if a.infinite then 1 else 0}"])
    | _ => (ctx, ["badargs"])
  | "perft" => withGame fun g =>
    -- perft <depth>: the model of `rustybait perft <depth> <fen>`: one line per root move (sorted by text), then the sum
    match args.map String.toNat? with
    | [some d] =>
      let rows := g.perftDivide d
      (ctx, rows.map (fun r => s!"{S r.1}: {r.2}") ++ [s!"sum {(rows.map (·.2)).sum} perft {g.perft d}"])
    | _ => (ctx, ["badargs"])
  | "spec_perft" =>
    -- spec_perft <depth> <fen>: the number of legal lines of that length by the rules
    match args with
    | ds :: _ =>
      match ds.toNat?, Spec.fenLoose (restL.drop (ds.length + 1)) with
      | some d, some a => (ctx, [toString (Spec.perftFast d a)])
      | _, _ => (ctx, ["unparsable"])
    | _ => (ctx, ["badargs"])
  | "share" =>
    -- share <w>: ((w as f64 * 0.02) as u64) in the exact binary64 model
    match args with
    | [w] => (ctx, [match w.toNat? with | some n => toString (Share.shareF64 n) | none => "badargs"])
    | _ => (ctx, ["badargs"])
  -- ---- specification evaluated on given text (independent of the model) ----
  | "spec_class" => (ctx, [specClass restL])
  | "spec_legal" =>
    match Spec.fenLoose restL with
    | some a => (ctx, [specMoves (Spec.legalList a)])
    | none => (ctx, ["unparsable"])
  | "spec_pseudo" =>
    match Spec.fenLoose restL with
    | some a => (ctx, [specMoves (Spec.pseudoList a)])
    | none => (ctx, ["unparsable"])
  | "spec_sane" =>
    match Spec.fenLoose restL with
    | some a => (ctx, [if Spec.sane a then "sane" else "insane"])
    | none => (ctx, ["unparsable"])
  | "spec_play" =>
    -- spec_play <uci> <fen…>
    match args with
    | u :: fenParts =>
      match Spec.fenLoose (" ".intercalate fenParts).toList, Spec.UciMove.ofText u.toList with
      | some a, some m => (ctx, [S (Spec.render4 (Spec.play a m))])
      | _, _ => (ctx, ["unparsable"])
    | _ => (ctx, ["badargs"])
  | "spec_succ" =>
    -- spec_succ <fenA (4 fields)> | <fenB (4 fields)> : the legal moves of A (by the rules) that lead to B
    match (rest.splitOn " | ") with
    | [fa, fb] =>
      match Spec.fenLoose fa.toList, Spec.fenLoose fb.toList with
      | some a, some b =>
        let hits := (Spec.legalListFast a).filter (fun m => Spec.render4 (Spec.play a m) == Spec.render4 b)
        (ctx, [specMoves hits])
      | _, _ => (ctx, ["unparsable"])
    | _ => (ctx, ["badargs"])
  | "spec_line" =>
    -- spec_line <m1,m2,...|-> <fen…> : index of the first move that is not legal by the rules, or `ok`
    match args with
    | ms :: fenParts =>
      match Spec.fenLoose (" ".intercalate fenParts).toList with
      | some a =>
        let moves := if ms == "-" then [] else ms.splitOn ","
        let rec go (a : Spec.APos) (l : List String) (i : Nat) : String :=
          match l with
          | [] => "ok"
          | u :: rest =>
            match Spec.UciMove.ofText u.toList with
            | some m => if Spec.legal a m then go (Spec.play a m) rest (i + 1) else s!"illegal@{i}:{u}"
            | none => s!"unparsable@{i}:{u}"
        (ctx, [go a moves 0])
      | none => (ctx, ["unparsable"])
    | _ => (ctx, ["badargs"])
  | "spec_mate1" =>
    -- the legal moves after which the opponent is checkmated
    match Spec.fenLoose restL with
    | some a =>
      let mates := (Spec.legalList a).filter (fun m =>
        let b := Spec.play a m
        (Spec.legalList b).isEmpty && Spec.inCheck b b.side)
      (ctx, [specMoves mates])
    | none => (ctx, ["unparsable"])
  | "spec_mate" =>
    -- spec_mate <n> <fen>: shortest forced mate within n moves (or -), then the moves that keep a
    -- mate of that length, then the moves that keep a mate within n moves
    match args with
    | ns :: _ =>
      match ns.toNat?, Spec.fenLoose (restL.drop (ns.length + 1)) with
      | some n, some a =>
        match Spec.mateLength n a with
        | some k => (ctx, [s!"{k} | {specMoves (Spec.keepMoves k a)} | {specMoves (Spec.keepMoves n a)}"])
        | none => (ctx, ["- | 0  | 0 "])
      | _, _ => (ctx, ["unparsable"])
    | _ => (ctx, ["badargs"])
  | "spec_status" =>
    -- number of legal moves and whether the side to move is in check
    match Spec.fenLoose restL with
    | some a => (ctx, [s!"{(Spec.legalList a).length} {if Spec.inCheck a a.side then "check" else "quiet"}"])
    | none => (ctx, ["unparsable"])
  | "spec_render" =>
    match Spec.fenLoose restL with
    | some a => (ctx, [S (Spec.render4 a)])
    | none => (ctx, ["unparsable"])
  | "spec_norm" =>
    match Spec.fenLoose restL with
    | some a => (ctx, [S (Spec.render4 (Spec.normalizeEp a))])
    | none => (ctx, ["unparsable"])
  | "spec_zobrist" =>
    match Spec.fenLoose restL with
    | some a => (ctx, [hex16 (Spec.zobrist a)])
    | none => (ctx, ["unparsable"])
  | "spec_psq" =>
    -- spec_psq <fen…> : both phases, the low-material test under both tables, the mirrored sums
    match Spec.fenLoose restL with
    | some a =>
      (ctx, [s!"{Spec.psq a false} {Spec.psq a true} {if Spec.lowMaterial a false then 1 else 0} {if Spec.lowMaterial a true then 1 else 0} {Spec.psq (Spec.mirror a) false} {Spec.psq (Spec.mirror a) true} {S (Spec.render4 (Spec.mirror a))}"])
    | none => (ctx, ["unparsable"])
  | _ => (ctx, ["badop"])

partial def loop (h : IO.FS.Stream) (out : IO.FS.Stream) (ctx : Ctx) (n : Nat) : IO Unit := do
  let line ← h.getLine
  if line.isEmpty then return ()
  let line := (line.dropEndWhile (fun c => c == '\n' || c == '\r')).toString
  if line.isEmpty || line.startsWith "#" then
    loop h out ctx (n + 1)
  else
    let (ctx', outs) := runOp ctx line
    out.putStrLn s!"@{n}"
    for o in outs do out.putStrLn o
    loop h out ctx' (n + 1)

def main : IO Unit := do
  let stdin ← IO.getStdin
  let stdout ← IO.getStdout
  loop stdin stdout {} 1
  stdout.flush
